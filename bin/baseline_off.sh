#!/bin/bash
# Runs the repository's stable baseline with the verif guard OFF and checks that the 54
# stable tests of /root/.vp/BASELINE.json pass. Exit 0 iff all of them pass.
export GOFLAGS=-mod=mod GOPROXY=off GOSUMDB=off GOTOOLCHAIN=local
out=$(mktemp /tmp/verif-baseline.XXXXXX.json)
trap 'rm -f "$out"' EXIT
(cd /repo && flock /tmp/mtb-ports.lock go test -mod=mod -json -vet=off -count=1 -timeout 25m ./...) > "$out" 2>/dev/null
python3 - "$out" <<'PY'
import json, sys
res = {}
for line in open(sys.argv[1]):
    try: e = json.loads(line)
    except Exception: continue
    if e.get("Test") and e.get("Action") in ("pass", "fail", "skip"):
        res[e["Package"] + "::" + e["Test"]] = e["Action"]
base = json.load(open("/root/.vp/BASELINE.json"))
bad = [t for t in base["stable_pass"] if res.get(t) != "pass"]
print("baseline: %d/%d stable tests pass" % (len(base["stable_pass"]) - len(bad), len(base["stable_pass"])))
for t in bad: print("NOT PASSING:", t, res.get(t))
sys.exit(1 if bad else 0)
PY
