#!/bin/bash
# confirm_seed.sh <dir-with-patch.diff-and-demo> : confirms a seeded change in a scratch worktree:
#  (1) builds, (2) existing tests pass with the patch, (3) demo fails with the patch, (4) demo passes without it.
# Writes <dir>/confirm.log and prints a one-line verdict.
set -u
D=$(readlink -f "$1"); ID=$(basename "$D")
export GOFLAGS=-mod=mod GOPROXY=off GOSUMDB=off GOTOOLCHAIN=local
WT=/tmp/confirm-$ID-$$
LOG=$D/confirm.log; : > "$LOG"
git -C /repo worktree add -q --detach "$WT" HEAD >>"$LOG" 2>&1 || { echo "$ID worktree-failed"; exit 2; }
trap 'git -C /repo worktree remove --force "$WT" >/dev/null 2>&1' EXIT
cd "$WT"
demo=$(ls "$D"/demo*_test.go 2>/dev/null | head -1)
pkgdir=""
if [ -n "$demo" ]; then
  pkg=$(grep -m1 '^package ' "$demo" | awk '{print $2}')
  case "$pkg" in
    prover|prover_test) pkgdir=prover;; keccak|keccak_test) pkgdir=prover/keccak;; poseidon|poseidon_test) pkgdir=prover/poseidon;;
    poseidon_tree|poseidon_tree_test) pkgdir=poseidon_tree;; server|server_test) pkgdir=server;; main|main_test) pkgdir=.;;
    wrapped_http|wrapped_http_test) pkgdir=server/wrapped_http;; logging|logging_test) pkgdir=logging;; *) pkgdir=$pkg;;
  esac
fi
run_demo() {  # returns 0 if demo passes
  if [ -n "$demo" ]; then
    # run exactly the test functions the demonstration file defines
    pat=$(grep -o 'func Test[A-Za-z0-9_]*' "$demo" | sed 's/func //' | paste -sd'|')
    DEMO_RUN="^(${pat})\$"
    mkdir -p "$pkgdir"; cp "$demo" "$pkgdir/zz_demo_test.go"
    if [ "$pkgdir" = "." ]; then
      # a demo in the root package would run TestMain (fixed ports): serialise
      flock /tmp/mtb-ports.lock go test -vet=off -count=1 -timeout 20m -run "$DEMO_RUN" . >>"$LOG" 2>&1; rc=$?
    else
      go test -vet=off -count=1 -timeout 20m -tags "${DEMO_TAGS:-}" -run "$DEMO_RUN" ./$pkgdir/ >>"$LOG" 2>&1; rc=$?
    fi
    rm -f "$pkgdir/zz_demo_test.go"; git checkout -q -- go.mod go.sum 2>/dev/null
    return $rc
  elif [ -x "$D/demo.sh" ]; then
    (cd "$WT" && "$D/demo.sh" "$WT") >>"$LOG" 2>&1; return $?
  fi
  echo "no demo found" >>"$LOG"; return 99
}
echo "== demo WITHOUT patch" >>"$LOG"; run_demo; without=$?
git apply "$D/patch.diff" >>"$LOG" 2>&1 || { echo "$ID patch-does-not-apply"; exit 2; }
echo "== build WITH patch" >>"$LOG"; go build ./... >>"$LOG" 2>&1; build=$?
echo "== existing tests WITH patch" >>"$LOG"
flock /tmp/mtb-ports.lock go test -mod=mod -json -vet=off -count=1 -timeout 25m ./... > "$WT/.tests.json" 2>>"$LOG"
python3 - "$WT/.tests.json" >>"$LOG" <<'PY'
import json, sys
res = {}
for line in open(sys.argv[1]):
    try: e = json.loads(line)
    except Exception: continue
    if e.get("Test") and e.get("Action") in ("pass", "fail", "skip"):
        res[e["Package"] + "::" + e["Test"]] = e["Action"]
base = json.load(open("/root/.vp/BASELINE.json"))
bad = [t for t in base["stable_pass"] if res.get(t) != "pass"]
print("stable tests passing: %d/%d" % (len(base["stable_pass"]) - len(bad), len(base["stable_pass"])))
for t in bad: print("NOT PASSING:", t, res.get(t))
open(sys.argv[1] + ".verdict", "w").write("0" if not bad else "1")
PY
tests=$(cat "$WT/.tests.json.verdict" 2>/dev/null || echo 1)
echo "== demo WITH patch" >>"$LOG"; run_demo; with=$?
verdict="build=$build tests_fail=$tests demo_without_patch_rc=$without demo_with_patch_rc=$with"
if [ $build = 0 ] && [ "$tests" = 0 ] && [ $without = 0 ] && [ $with != 0 ] && [ $with != 99 ]; then echo "$ID CONFIRMED $verdict"; echo "CONFIRMED $verdict" >>"$LOG"; else echo "$ID NOT-CONFIRMED $verdict"; echo "NOT-CONFIRMED $verdict" >>"$LOG"; fi
