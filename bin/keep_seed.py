#!/usr/bin/env python3
"""keep_seed.py <ID> <needs...> : moves a CONFIRMED seeded change from seeded-incoming/<ID> to seeded/<ID> with meta.json."""
import json, os, shutil, sys
root = os.path.dirname(os.path.dirname(os.path.abspath(__file__)))
sid, needs = sys.argv[1], " ".join(sys.argv[2:])
src, dst = os.path.join(root, "seeded-incoming", sid), os.path.join(root, "seeded", sid)
log = open(os.path.join(src, "confirm.log")).read()
assert "\nCONFIRMED" in log or log.strip().endswith("demo_with_patch_rc=1") or "CONFIRMED build=0" in log, "not confirmed"
os.makedirs(dst, exist_ok=True)
for f in os.listdir(src):
    shutil.copy(os.path.join(src, f), dst)
prop = sid.split("-")[0]
meta = dict(id=sid, breaks_property=prop, needs_to_manifest=needs,
            confirmed_by="bin/confirm_seed.sh in a scratch worktree of /repo HEAD: go build ok; the 54 stable tests pass with the patch; the demonstration passes without the patch and fails with it",
            confirm_verdict=[l for l in log.splitlines() if l.startswith("CONFIRMED")][-1],
            files=sorted(os.listdir(dst)))
json.dump(meta, open(os.path.join(dst, "meta.json"), "w"), indent=1)
shutil.rmtree(src)
print("kept", sid)
