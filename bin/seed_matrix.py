#!/usr/bin/env python3
"""seed_matrix.py [--tier quick] [ids...] : runs checks against the seeded changes in /verif/seeded, each in its own scratch
worktree of /repo (never touching /repo itself), and records which check catches which change in seeded/results.json."""
import json, os, subprocess, sys, time
from concurrent.futures import ThreadPoolExecutor
ROOT = os.path.dirname(os.path.dirname(os.path.abspath(__file__)))
tier = "quick"
args = sys.argv[1:]
if args[:1] == ["--tier"]:
    tier, args = args[1], args[2:]
extra = {}
if "--also" in args:
    i = args.index("--also")
    for spec in args[i + 1:]:
        sid, checks = spec.split("=")
        extra[sid] = checks.split(",")
    args = args[:i]
# --benign: the property-PRESERVING changes in /verif/benign (expected outcome: exit 0, never a VIOLATION)
SDIR = "seeded"
if args[:1] == ["--benign"]:
    SDIR, args = "benign", args[1:]
ids = args or sorted(os.listdir(os.path.join(ROOT, SDIR)))
ids = [i for i in ids if os.path.exists(os.path.join(ROOT, SDIR, i, "patch.diff"))]
resf = os.path.join(ROOT, SDIR, "results.json")
results = json.load(open(resf)) if os.path.exists(resf) else {}


def one(sid):
    prop = sid.split("-")[0]
    wt = "/tmp/sm-%s-%d" % (sid, os.getpid())
    ev = "/tmp/sm-ev-%s-%d" % (sid, os.getpid())
    out = {}
    try:
        subprocess.run(["git", "-C", "/repo", "worktree", "add", "-q", "--detach", wt, "HEAD"], check=True, capture_output=True)
        r = subprocess.run(["git", "-C", wt, "apply", os.path.join(ROOT, SDIR, sid, "patch.diff")], capture_output=True, text=True)
        if r.returncode != 0:
            return sid, dict(error="patch does not apply: " + r.stderr[:200])
        for chk in [prop] + extra.get(sid, []):
            env = dict(os.environ, VERIF_REPO=wt, VERIF_EVIDENCE_DIR=ev, VERIF_TMP="/tmp")
            t = time.time()
            p = subprocess.run([os.path.join(ROOT, "bin", "check"), chk, "--tier", tier], capture_output=True, text=True, env=env, cwd=ROOT)
            lines = [l for l in p.stdout.splitlines() if l.startswith("VIOLATION") or l.startswith("INFRA") or l.startswith("  ")]
            out[chk] = dict(rc=p.returncode, caught=p.returncode == 1, wall_s=round(time.time() - t), first=(lines[1] if len(lines) > 1 and lines[0].startswith("VIOLATION") else (lines[0] if lines else ""))[:400].strip(),
                            tier=tier, repo_head=subprocess.run(["git", "-C", "/repo", "rev-parse", "--short", "HEAD"], capture_output=True, text=True).stdout.strip())
    finally:
        subprocess.run(["git", "-C", "/repo", "worktree", "remove", "--force", wt], capture_output=True)
        subprocess.run(["rm", "-rf", ev])
    return sid, out


with ThreadPoolExecutor(int(os.environ.get("SM_PAR", "3"))) as ex:
    for sid, out in ex.map(one, ids):
        print(sid, json.dumps(out)[:300], flush=True)
        # merge with whatever other runs wrote meanwhile
        results = json.load(open(resf)) if os.path.exists(resf) else {}
        results.setdefault(sid, {}).update(out)
        json.dump(results, open(resf, "w"), indent=1, sort_keys=True)
