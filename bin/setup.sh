#!/bin/bash
# MANIFEST.setup_cmd — builds the framework from files on disk only (offline).
set -e
cd "$(dirname "$0")/.."
export GOFLAGS=-mod=mod GOPROXY=off GOSUMDB=off GOTOOLCHAIN=local
mkdir -p build/classes evidence
javac -cp /opt/veriftools/tla/tla2tools.jar -d build/classes specs/BigField.java
# warm the Go build cache for the harness and the CLI (checks rebuild from /repo's working tree anyway)
(cd harness && go build -tags verif -o ../build/vh-warm ./cmd/vh) && rm -f build/vh-warm
(cd /repo && go build -tags verif -o /verif/build/mbu-warm . ) && rm -f build/mbu-warm
echo setup ok
