package main

// Artefact drivers (C12, C17): each invocation is ONE fresh process that performs one build or one
// extraction and prints one record; the recorded history is validated by TLC against Artifacts.tla.

import (
	"bytes"
	"crypto/sha256"
	"encoding/hex"
	"encoding/json"
	"fmt"
	"os"
	"os/exec"
	"path/filepath"
	"regexp"
	"runtime"
	"sort"
	"strings"
	"sync"

	"github.com/consensys/gnark-crypto/ecc"
	"github.com/consensys/gnark/backend/groth16"
	"github.com/consensys/gnark/constraint"
	"worldcoin/gnark-mbu/prover"
)

func digestCS(cs constraint.ConstraintSystem) string {
	var b bytes.Buffer
	cs.WriteTo(&b)
	h := sha256.Sum256(b.Bytes())
	return hex.EncodeToString(h[:])
}

var reDef = regexp.MustCompile(`(?m)^def ([A-Za-z0-9_]+)`)

// splitDefs: definition name -> sha256 of its text (from "def Name" up to the next "def " / "end")
func splitDefs(src string) map[string]string {
	out := map[string]string{}
	idx := reDef.FindAllStringSubmatchIndex(src, -1)
	for i, m := range idx {
		end := len(src)
		if i+1 < len(idx) {
			end = idx[i+1][0]
		}
		name := src[m[2]:m[3]]
		h := sha256.Sum256([]byte(strings.TrimRight(src[m[0]:end], "\n ")))
		out[name] = hex.EncodeToString(h[:8])
	}
	return out
}

var reGadgetTok = regexp.MustCompile(`\b[A-Za-z][A-Za-z0-9]*(?:_[0-9]+)+\b`)

// modelShape: is the extracted text a COMPLETE model?  closed = the namespace is opened and closed; mains = the top-level circuit
// definitions present; dangling = gadget names used somewhere in the text without a definition
func modelShape(src string) map[string]interface{} {
	defs := splitDefs(src)
	mains := []string{}
	for n := range defs {
		if strings.HasPrefix(n, "InsertionMbuCircuit_") || strings.HasPrefix(n, "DeletionMbuCircuit_") {
			mains = append(mains, n[:strings.Index(n, "_")])
		}
	}
	sort.Strings(mains)
	dangling := []string{}
	seen := map[string]bool{}
	for _, t := range reGadgetTok.FindAllString(src, -1) {
		if _, ok := defs[t]; !ok && !strings.HasPrefix(t, "gate_") && !seen[t] {
			seen[t] = true
			dangling = append(dangling, t)
		}
	}
	sort.Strings(dangling)
	return map[string]interface{}{"closed": strings.Contains(src, "namespace SemaphoreMTB") && strings.HasSuffix(strings.TrimSpace(src), "end SemaphoreMTB"),
		"mains": mains, "dangling": len(dangling)}
}

func sha(s []byte) string { h := sha256.Sum256(s); return hex.EncodeToString(h[:]) }

func init() {
	commands["art-build"] = func(args []string) {
		var c struct {
			Mode  string `json:"mode"`
			Depth uint32 `json:"depth"`
			Batch uint32 `json:"batch"`
			Path  string `json:"path"`
			CLI   string `json:"cli"`
			Dir   string `json:"dir"`
		}
		loadCases(args, &c)
		rec := map[string]interface{}{"event": "build", "mode": c.Mode, "depth": c.Depth, "batch": c.Batch, "path": c.Path, "procs": runtime.GOMAXPROCS(0), "pid": os.Getpid(),
			"digest": "", "nbPublic": -1, "nbSecret": -1, "err": ""}
		var cs constraint.ConstraintSystem
		var err error
		switch c.Path {
		case "r1cs":
			if c.Mode == "insertion" {
				cs, err = prover.BuildR1CSInsertion(c.Depth, c.Batch)
			} else {
				cs, err = prover.BuildR1CSDeletion(c.Depth, c.Batch)
			}
		case "setup":
			var ps *prover.ProvingSystem
			if c.Mode == "insertion" {
				ps, err = prover.SetupInsertion(c.Depth, c.Batch)
			} else {
				ps, err = prover.SetupDeletion(c.Depth, c.Batch)
			}
			if err == nil {
				cs = ps.ConstraintSystem
				// export pk / vk for the import path
				pk, _ := os.Create(filepath.Join(c.Dir, fmt.Sprintf("pk-%s-%d-%d", c.Mode, c.Depth, c.Batch)))
				ps.ProvingKey.WriteTo(pk)
				pk.Close()
				vk, _ := os.Create(filepath.Join(c.Dir, fmt.Sprintf("vk-%s-%d-%d", c.Mode, c.Depth, c.Batch)))
				ps.VerifyingKey.WriteTo(vk)
				vk.Close()
				// and the whole system, for `gnark-mbu export-solidity`
				if f, e := os.Create(filepath.Join(c.Dir, fmt.Sprintf("ps-%s-%d-%d.ps", c.Mode, c.Depth, c.Batch))); e == nil {
					ps.WriteTo(f)
					f.Close()
				}
			}
		case "import":
			pk := filepath.Join(c.Dir, fmt.Sprintf("pk-%s-%d-%d", c.Mode, c.Depth, c.Batch))
			vk := filepath.Join(c.Dir, fmt.Sprintf("vk-%s-%d-%d", c.Mode, c.Depth, c.Batch))
			if _, e := os.Stat(pk); e != nil {
				// keys "generated elsewhere": any well-formed key files of that mode will do for the compile path
				if alt, _ := filepath.Glob(filepath.Join(c.Dir, "pk-"+c.Mode+"-*")); len(alt) > 0 {
					pk = alt[0]
					vk = filepath.Join(c.Dir, "vk-"+strings.TrimPrefix(filepath.Base(alt[0]), "pk-"))
				} else {
					err = fmt.Errorf("no exported key files for mode %s in %s", c.Mode, c.Dir)
				}
			}
			if err != nil {
				break
			}
			var ps *prover.ProvingSystem
			if c.Mode == "insertion" {
				ps, err = prover.ImportInsertionSetup(c.Depth, c.Batch, pk, vk)
			} else {
				ps, err = prover.ImportDeletionSetup(c.Depth, c.Batch, pk, vk)
			}
			if err == nil {
				cs = ps.ConstraintSystem
			}
		case "cli":
			out := filepath.Join(c.Dir, fmt.Sprintf("r1cs-%d.bin", os.Getpid()))
			cmd := exec.Command(c.CLI, "r1cs", "--mode", c.Mode, "--output", out, "--tree-depth", fmt.Sprint(c.Depth), "--batch-size", fmt.Sprint(c.Batch))
			msg, e := cmd.CombinedOutput()
			if e != nil {
				err = fmt.Errorf("gnark-mbu r1cs: %v: %s", e, firstLine(string(msg)))
			} else {
				f, e2 := os.Open(out)
				if e2 != nil {
					err = e2
				} else {
					cs = groth16.NewCS(ecc.BN254)
					_, err = cs.ReadFrom(f)
					f.Close()
					if err == nil {
						// digest of the FILE the command wrote (must be the same bytes as WriteTo of the library paths)
						b, _ := os.ReadFile(out)
						rec["digest"] = sha(b)
					}
				}
				os.Remove(out)
			}
		}
		if err != nil {
			rec["err"] = firstLine(err.Error())
		} else {
			if rec["digest"] == "" {
				rec["digest"] = digestCS(cs)
			}
			rec["nbPublic"] = cs.GetNbPublicVariables() - 1 // gnark counts the constant ONE wire as public
			rec["nbSecret"] = cs.GetNbSecretVariables()
			rec["nbConstraints"] = cs.GetNbConstraints()
		}
		b, _ := json.Marshal(rec)
		fmt.Println(string(b))
	}
	// several compilations in ONE process, in a given order (each dimension twice): digests must equal those of fresh processes
	commands["art-build-seq"] = func(args []string) {
		var c struct {
			Dims [][]interface{} `json:"dims"` // [mode, depth, batch]
		}
		loadCases(args, &c)
		build := func(d []interface{}, path string) map[string]interface{} {
			mode, depth, batch := d[0].(string), uint32(d[1].(float64)), uint32(d[2].(float64))
			rec := map[string]interface{}{"event": "build", "mode": mode, "depth": depth, "batch": batch, "path": path, "procs": runtime.GOMAXPROCS(0), "pid": os.Getpid(),
				"digest": "", "nbPublic": -1, "nbSecret": -1, "err": ""}
			var cs constraint.ConstraintSystem
			var err error
			func() {
				defer func() {
					if p := recover(); p != nil {
						err = fmt.Errorf("panic: %v", p)
					}
				}()
				if mode == "insertion" {
					cs, err = prover.BuildR1CSInsertion(depth, batch)
				} else {
					cs, err = prover.BuildR1CSDeletion(depth, batch)
				}
			}()
			if err != nil {
				rec["err"] = firstLine(err.Error())
			} else {
				rec["digest"] = digestCS(cs)
				rec["nbPublic"] = cs.GetNbPublicVariables() - 1
				rec["nbSecret"] = cs.GetNbSecretVariables()
				rec["nbConstraints"] = cs.GetNbConstraints()
			}
			return rec
		}
		for rep := 0; rep < 2; rep++ {
			for _, d := range c.Dims {
				b, _ := json.Marshal(build(d, "r1cs-same-process"))
				fmt.Println(string(b))
			}
		}
		// the same dimensions compiled AT THE SAME TIME on several goroutines of this process (a service or tool preparing several
		// systems at once): each build is still the function of (mode, depth, batch) the registry says it is
		for round := 0; round < 3; round++ {
			recs := make([]map[string]interface{}, 2*len(c.Dims))
			var wg sync.WaitGroup
			for i := range recs {
				wg.Add(1)
				go func(i int) {
					defer wg.Done()
					recs[i] = build(c.Dims[i%len(c.Dims)], "r1cs-concurrent")
				}(i)
			}
			wg.Wait()
			for _, rec := range recs {
				b, _ := json.Marshal(rec)
				fmt.Println(string(b))
			}
		}
	}
	commands["art-solidity"] = func(args []string) {
		var c struct {
			CLI  string `json:"cli"`
			Keys string `json:"keys"`
			Mode string `json:"mode"`
		}
		loadCases(args, &c)
		rec := map[string]interface{}{"event": "solidity", "keys": filepath.Base(c.Keys), "inputs": -1, "err": ""}
		out, err := exec.Command(c.CLI, "export-solidity", "--keys-file", c.Keys).Output()
		if err != nil {
			rec["err"] = "export-solidity: " + err.Error()
		} else {
			m := regexp.MustCompile(`uint256\[(\d+)\] calldata input`).FindSubmatch(out)
			if m == nil {
				rec["err"] = "no `uint256[N] calldata input` in the exported verifier"
			} else {
				fmt.Sscan(string(m[1]), new(int))
				var n int
				fmt.Sscan(string(m[1]), &n)
				rec["inputs"] = n
			}
		}
		b, _ := json.Marshal(rec)
		fmt.Println(string(b))
	}
	commands["art-extract"] = func(args []string) {
		var c struct {
			Depth uint32   `json:"depth"`
			Batch uint32   `json:"batch"`
			CLI   string   `json:"cli"`
			Dir   string   `json:"dir"`
			Keep  string   `json:"keep"`
			Prev  string   `json:"prev"`
			Reps  int      `json:"reps"` // library path only: this many further extractions in the SAME process, one record each
			Env   []string `json:"env"`  // CLI path: extra environment of the command (the deployment's MTB_MODE etc.); extraction takes depth and batch, nothing else
		}
		loadCases(args, &c)
		defer func() {
			for k := 0; k < c.Reps && c.CLI == ""; k++ {
				rec := map[string]interface{}{"event": "extract", "depth": c.Depth, "batch": c.Batch, "procs": runtime.GOMAXPROCS(0), "pid": os.Getpid(), "whole": "", "defs": map[string]string{}, "err": "", "via": "lib-repeat", "shape": map[string]interface{}{"closed": false, "mains": []string{}, "dangling": 0}}
				if src, err := prover.ExtractLean(c.Depth, c.Batch); err != nil {
					rec["err"] = firstLine(err.Error())
				} else {
					rec["whole"] = sha([]byte(src))
					rec["defs"] = splitDefs(src)
					rec["shape"] = modelShape(src)
				}
				b, _ := json.Marshal(rec)
				fmt.Println(string(b))
			}
		}()
		rec := map[string]interface{}{"event": "extract", "depth": c.Depth, "batch": c.Batch, "procs": runtime.GOMAXPROCS(0), "pid": os.Getpid(), "whole": "", "defs": map[string]string{}, "err": "", "via": "lib", "shape": map[string]interface{}{"closed": false, "mains": []string{}, "dangling": 0}}
		var src string
		var err error
		if c.CLI != "" {
			rec["via"] = "cli"
			out := filepath.Join(c.Dir, fmt.Sprintf("extract-%d.lean", os.Getpid()))
			// as in the CI step, the command overwrites an EXISTING model (here: the committed file plus a tail) — what it writes must not
			// depend on what the path held before
			if old, e0 := os.ReadFile(c.Prev); e0 == nil {
				os.WriteFile(out, append(old, bytes.Repeat([]byte("-- stale tail\n"), 2000)...), 0o644)
			}
			xc := exec.Command(c.CLI, "extract-circuit", "--output", out, "--tree-depth", fmt.Sprint(c.Depth), "--batch-size", fmt.Sprint(c.Batch))
			xc.Env = append(os.Environ(), c.Env...)
			if len(c.Env) > 0 {
				rec["via"] = "cli " + strings.Join(c.Env, " ")
			}
			msg, e := xc.CombinedOutput()
			if e != nil {
				err = fmt.Errorf("extract-circuit: %v: %s", e, firstLine(string(msg)))
			} else {
				b, _ := os.ReadFile(out)
				src = string(b)
				os.Remove(out)
			}
		} else {
			src, err = prover.ExtractLean(c.Depth, c.Batch)
		}
		if err != nil {
			rec["err"] = firstLine(err.Error())
		} else {
			rec["whole"] = sha([]byte(src))
			rec["defs"] = splitDefs(src)
			rec["shape"] = modelShape(src)
			if c.Keep != "" {
				os.WriteFile(c.Keep, []byte(src), 0o644)
			}
		}
		b, _ := json.Marshal(rec)
		fmt.Println(string(b))
	}
	commands["art-committed"] = func(args []string) {
		var c struct {
			Repo string `json:"repo"`
		}
		loadCases(args, &c)
		fv := filepath.Join(c.Repo, "formal-verification")
		b, err := os.ReadFile(filepath.Join(fv, "FormalVerification.lean"))
		if err != nil {
			die("%v", err)
		}
		refs := map[string]bool{}
		files, _ := filepath.Glob(filepath.Join(fv, "FormalVerification", "*.lean"))
		files = append(files, filepath.Join(fv, "Main.lean"))
		reQ := regexp.MustCompile(`SemaphoreMTB\.([A-Za-z0-9_]+)`)
		reRen := regexp.MustCompile(`open SemaphoreMTB renaming ([A-Za-z0-9_]+)`)
		reOpen := regexp.MustCompile(`open SemaphoreMTB \(([^)]*)\)`)
		for _, f := range files {
			t, _ := os.ReadFile(f)
			for _, m := range reQ.FindAllStringSubmatch(string(t), -1) {
				refs[m[1]] = true
			}
			for _, m := range reRen.FindAllStringSubmatch(string(t), -1) {
				refs[m[1]] = true
			}
			for _, m := range reOpen.FindAllStringSubmatch(string(t), -1) {
				for _, n := range strings.Fields(m[1]) {
					refs[n] = true
				}
			}
		}
		// `F` is an abbreviation in the extracted file, not a def
		delete(refs, "F")
		names := make([]string, 0, len(refs))
		for n := range refs {
			names = append(names, n)
		}
		sort.Strings(names)
		rec := map[string]interface{}{"event": "committed", "whole": sha(b), "defs": splitDefs(string(b)), "refs": names}
		out, _ := json.Marshal(rec)
		fmt.Println(string(out))
	}
}
