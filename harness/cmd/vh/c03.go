package main

// C03: the public input binds the batch.  Witnesses of valid batches are produced here (code side),
// their on-chain hashes — and the hashes of every single-field perturbation and of every forged
// encoding v + k*r — are computed by TLC from Packing.tla, and the real circuit must accept the
// former and reject all the latter, including under a dishonest bit-decomposition hint.

import (
	"encoding/json"
	"fmt"
	"math/big"
	"math/rand"

	"worldcoin/gnark-mbu/poseidon_tree"
	"worldcoin/gnark-mbu/prover"
)

type jsonWitness struct {
	ID     string     `json:"id"`
	Mode   string     `json:"mode"`
	Depth  int        `json:"depth"`
	Batch  int        `json:"batch"`
	Start  string     `json:"start"`
	Idxs   []string   `json:"idxs"`
	Pre    string     `json:"pre"`
	Post   string     `json:"post"`
	Ids    []string   `json:"ids"`
	Proofs [][]string `json:"proofs"`
}

func (j *jsonWitness) full(hash *big.Int) *fullWitness {
	w := &fullWitness{Mode: j.Mode, Depth: j.Depth, Batch: j.Batch, Hash: hash, Start: bigOf(j.Start), Pre: bigOf(j.Pre), Post: bigOf(j.Post)}
	for _, s := range j.Idxs {
		w.Indices = append(w.Indices, bigOf(s))
	}
	for _, s := range j.Ids {
		w.Ids = append(w.Ids, bigOf(s))
	}
	for _, row := range j.Proofs {
		r := make([]*big.Int, len(row))
		for i, s := range row {
			r[i] = bigOf(s)
		}
		w.Proofs = append(w.Proofs, r)
	}
	return w
}

func witnessJSON(id string, w *fullWitness) jsonWitness {
	j := jsonWitness{ID: id, Mode: w.Mode, Depth: w.Depth, Batch: w.Batch, Start: "0", Pre: w.Pre.String(), Post: w.Post.String(), Idxs: []string{}, Ids: []string{}}
	if w.Start != nil {
		j.Start = w.Start.String()
	}
	for _, v := range w.Indices {
		j.Idxs = append(j.Idxs, v.String())
	}
	for _, v := range w.Ids {
		j.Ids = append(j.Ids, v.String())
	}
	for _, row := range w.Proofs {
		j.Proofs = append(j.Proofs, fmtBigs(row))
	}
	return j
}

// classed commitment values: 0, 1, r-1, leading-zero-byte values, random
func classedValue(rng *rand.Rand, k int) *big.Int {
	switch k % 6 {
	case 0:
		return big.NewInt(0)
	case 1:
		return big.NewInt(1)
	case 2:
		return new(big.Int).Sub(bn254R, big.NewInt(1))
	case 3:
		return new(big.Int).Rand(rng, new(big.Int).Lsh(big.NewInt(1), 240)) // two leading zero bytes
	case 4:
		return new(big.Int).Rand(rng, new(big.Int).Lsh(big.NewInt(1), 248)) // one leading zero byte
	}
	return randField(rng)
}

type c03Claim struct {
	Hash   string `json:"hash"`
	Accept bool   `json:"accept"`
	What   string `json:"what"`
	// a forged encoding: the witness value of `field` (by its decimal value) is decomposed as `forged` by a dishonest hint
	Forged string `json:"forged,omitempty"`
	Value  string `json:"value,omitempty"`
	// perturbed witness value instead of a perturbed hash
	Witness *jsonWitness `json:"witness,omitempty"`
}

func init() {
	commands["c03-gen"] = func(args []string) {
		var cs struct {
			Dims [][]interface{} `json:"dims"` // [mode, depth, batch, variant]
		}
		loadCases(args, &cs)
		rng := rand.New(rand.NewSource(seed()))
		for i, d := range cs.Dims {
			mode, depth, batch, variant := d[0].(string), int(d[1].(float64)), int(d[2].(float64)), d[3].(string)
			id := fmt.Sprintf("w%d-%s-%d-%d-%s", i, mode, depth, batch, variant)
			var w *fullWitness
			if mode == "insertion" {
				tree := poseidon_tree.NewTree(depth)
				start := 0
				if variant == "lastleaf" {
					start = (1 << depth) - batch
				} else if variant == "beyond32" {
					// a tree deeper than 32 levels has room at positions >= 2^32: a batch there is valid for the tree, but its start index
					// has no 4-byte encoding, so no public input can commit to it
					start = 1<<32 + rng.Intn(5)
				} else if depth < 20 && (1<<depth) > batch {
					start = rng.Intn((1 << depth) - batch + 1)
					for k := 0; k < start && k < 6; k++ {
						tree.Update(k, *randField(rng))
					}
				}
				p := &prover.InsertionParameters{StartIndex: uint32(start)}
				p.PreRoot = tree.Root()
				p.IdComms = make([]big.Int, batch)
				p.MerkleProofs = make([][]big.Int, batch)
				for k := 0; k < batch; k++ {
					p.IdComms[k] = *classedValue(rng, k+i)
					p.MerkleProofs[k] = tree.Update(start+k, p.IdComms[k])
				}
				p.PostRoot = tree.Root()
				w = witnessOfInsertion(p, depth)
				w.Start = new(big.Int).SetUint64(uint64(start))
			} else {
				tree := poseidon_tree.NewTree(depth)
				n := batch
				p := &prover.DeletionParameters{DeletionIndices: make([]uint32, batch), IdComms: make([]big.Int, batch), MerkleProofs: make([][]big.Int, batch)}
				leaves := map[int]*big.Int{}
				for k := 0; k < n && (depth >= 31 || k < 1<<depth); k++ {
					leaves[k] = classedValue(rng, k+i+5)
					tree.Update(k, *leaves[k])
				}
				p.PreRoot = tree.Root()
				for k := 0; k < batch; k++ {
					if variant == "maxpad" && k == batch-1 {
						// padding slot with the largest 32-bit index (only a padding index at depth 31)
						p.DeletionIndices[k] = uint32(1<<uint(depth+1) - 1)
						p.IdComms[k] = *randField(rng)
						p.MerkleProofs[k] = make([]big.Int, depth)
						continue
					}
					if _, ok := leaves[k]; !ok {
						p.DeletionIndices[k] = uint32(1 << uint(depth))
						p.MerkleProofs[k] = make([]big.Int, depth)
						continue
					}
					p.DeletionIndices[k] = uint32(k)
					p.IdComms[k] = *leaves[k]
					p.MerkleProofs[k] = tree.Update(k, *big.NewInt(0))
				}
				p.PostRoot = tree.Root()
				w = witnessOfDeletion(p, depth)
			}
			b, _ := json.Marshal(witnessJSON(id, w))
			fmt.Println(string(b))
		}
	}
	commands["c03"] = func(args []string) {
		var cs struct {
			Items []struct {
				W      jsonWitness `json:"w"`
				Claims []c03Claim  `json:"claims"`
				R1CS   bool        `json:"r1cs"`
			} `json:"items"`
		}
		loadCases(args, &cs)
		for _, it := range cs.Items {
			for ci, cl := range it.Claims {
				id := fmt.Sprintf("%s/claim%d/%s", it.W.ID, ci, cl.What)
				jw := &it.W
				if cl.Witness != nil {
					jw = cl.Witness
				}
				w := jw.full(bigOf(cl.Hash))
				r := Result{ID: id, OK: true, Kind: "binding", Expected: cl.Accept}
				var verdict bool
				var how string
				var detail string
				if cl.Forged != "" {
					// dishonest prover: the bit decomposition of the element `value` is that of value + k*r
					forged, val := bigOf(cl.Forged), new(big.Int).Mod(bigOf(cl.Value), bn254R)
					evil := func(_ *big.Int, inputs []*big.Int, results []*big.Int) error {
						// the prover lies ONLY on the decomposition that feeds the hash (256 digits of this element); every other
						// decomposition the circuit may ask for (comparators, range checks) is answered honestly
						src := inputs[0]
						if len(results) == 256 && inputs[0].Cmp(val) == 0 {
							src = forged
						}
						for i := range results {
							results[i].SetUint64(uint64(src.Bit(i)))
						}
						return nil
					}
					err := w.r1csAccepts(replaceHint(nBitsHint, evil))
					verdict, how = err == nil, "compiled R1CS with the bit-decomposition hint replaced (digits of "+cl.Forged+")"
					if err != nil {
						detail = firstLine(err.Error())
					}
				} else {
					err := w.engineAccepts()
					verdict, how = err == nil, "test engine"
					if err != nil {
						detail = firstLine(err.Error())
					}
					if it.R1CS && verdict == cl.Accept {
						err2 := w.r1csAccepts()
						if (err2 == nil) != cl.Accept {
							verdict, how = err2 == nil, "compiled R1CS"
						}
					}
				}
				if verdict != cl.Accept {
					r.OK = false
					r.Detail = fmt.Sprintf("%s: circuit accepts=%v with public input %s (%s), Packing.tla says %v. %s", how, verdict, cl.Hash, cl.What, cl.Accept, detail)
					r.Case = map[string]interface{}{"items": []interface{}{map[string]interface{}{"w": it.W, "claims": []c03Claim{cl}, "r1cs": it.R1CS}}}
				}
				r.Observed = verdict
				emit(r)
			}
		}
	}
}
