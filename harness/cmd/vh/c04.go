//go:build g_keccak

package main

import (
	"fmt"
	"math/big"

	"github.com/consensys/gnark/frontend"
	"golang.org/x/crypto/sha3"
	"worldcoin/gnark-mbu/prover/keccak"
)

type c04Case struct {
	Len     int    `json:"len"`
	Content string `json:"content"`
	Dom     string `json:"dom"`
	Msg     []int  `json:"msg"`    // bytes
	Digest  []int  `json:"digest"` // 32 bytes, the SPEC's digest
	R1CS    bool   `json:"r1cs"`
}
type c04Cases struct {
	Cases []c04Case `json:"cases"`
}

type keccakCircuit struct {
	In  []frontend.Variable
	Out []frontend.Variable
	dom string
}

var keccakCaptured []*big.Int

func (c *keccakCircuit) Define(api frontend.API) error {
	var h []frontend.Variable
	if c.dom == "keccak" {
		h = keccak.NewKeccak256(api, len(c.In), c.In...)
	} else {
		h = keccak.NewSHA3_256(api, len(c.In), c.In...)
	}
	if len(h) != len(c.Out) {
		return fmt.Errorf("gadget returned %d bits", len(h))
	}
	keccakCaptured = keccakCaptured[:0]
	for i := range h {
		keccakCaptured = append(keccakCaptured, constOf(api, h[i]))
	}
	for i := range h {
		api.AssertIsEqual(h[i], c.Out[i])
	}
	return nil
}

func bitsOfBytes(bs []int) []frontend.Variable {
	out := make([]frontend.Variable, 0, 8*len(bs))
	for _, b := range bs {
		for k := 0; k < 8; k++ {
			out = append(out, (b>>k)&1)
		}
	}
	return out
}

func kShape(n int, dom string) *keccakCircuit {
	return &keccakCircuit{In: make([]frontend.Variable, 8*n), Out: make([]frontend.Variable, 256), dom: dom}
}
func kAssign(c *c04Case, digest []int) *keccakCircuit {
	return &keccakCircuit{In: bitsOfBytes(c.Msg), Out: bitsOfBytes(digest), dom: c.Dom}
}

func hexBytes(bs []int) string {
	s := ""
	for _, b := range bs {
		s += fmt.Sprintf("%02x", b)
	}
	return s
}

func init() {
	commands["c04"] = func(args []string) {
		var cs c04Cases
		loadCases(args, &cs)
		for _, c := range cs.Cases {
			c := c
			id := fmt.Sprintf("%s/len=%d/%s", c.Dom, c.Len, c.Content)
			// spec-vs-reference (spec bug if it fails)
			raw := make([]byte, len(c.Msg))
			for i, b := range c.Msg {
				raw[i] = byte(b)
			}
			var ref []byte
			if c.Dom == "keccak" {
				h := sha3.NewLegacyKeccak256()
				h.Write(raw)
				ref = h.Sum(nil)
			} else {
				h := sha3.New256()
				h.Write(raw)
				ref = h.Sum(nil)
			}
			refI := make([]int, 32)
			for i := range ref {
				refI[i] = int(ref[i])
			}
			if hexBytes(refI) != hexBytes(c.Digest) {
				emit(Result{ID: id, OK: false, Kind: "spec-vs-reference", Expected: hexBytes(c.Digest), Observed: hexBytes(refI)})
				continue
			}
			r := Result{ID: id, OK: true, Kind: "keccak", Expected: hexBytes(c.Digest)}
			keccakCaptured = nil
			err := engineSolved(kShape(c.Len, c.Dom), kAssign(&c, c.Digest), bn254R)
			if len(keccakCaptured) == 256 {
				got := make([]int, 32)
				for i, b := range keccakCaptured {
					if b != nil && b.Sign() != 0 {
						got[i/8] |= 1 << (i % 8)
					}
				}
				r.Observed = hexBytes(got)
			}
			if err != nil {
				r.OK, r.Detail = false, "gadget rejects the spec's digest: "+firstLine(err.Error())
			} else {
				// any other claimed digest must be unsatisfiable (flip one bit, position varies with the case)
				bad := append([]int(nil), c.Digest...)
				pos := (c.Len*7 + 3) % 256
				bad[pos/8] ^= 1 << (pos % 8)
				if engineSolved(kShape(c.Len, c.Dom), kAssign(&c, bad), bn254R) == nil {
					r.OK, r.Detail = false, "gadget accepts a digest that differs in one bit"
				}
			}
			if r.OK && c.R1CS {
				ccs, cerr := compileR1CS(bn254R, kShape(c.Len, c.Dom))
				if cerr != nil {
					r.OK, r.Detail = false, "compile: "+cerr.Error()
				} else {
					if e := r1csSolved(ccs, kAssign(&c, c.Digest), bn254R); e != nil {
						r.OK, r.Detail = false, "R1CS rejects the spec's digest: "+firstLine(e.Error())
					}
					bad := append([]int(nil), c.Digest...)
					bad[31] ^= 0x80
					if e := r1csSolved(ccs, kAssign(&c, bad), bn254R); e == nil {
						r.OK, r.Detail = false, "R1CS accepts a wrong digest"
					}
				}
			}
			if !r.OK {
				r.Case = map[string]interface{}{"cases": []c04Case{c}}
			}
			emit(r)
		}
	}
}
