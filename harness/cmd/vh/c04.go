//go:build g_keccak

package main

import (
	"fmt"
	"math/big"

	"github.com/consensys/gnark/frontend"
	"golang.org/x/crypto/sha3"
	"worldcoin/gnark-mbu/prover/keccak"
)

type c04Case struct {
	Len     int    `json:"len"`
	Content string `json:"content"`
	Dom     string `json:"dom"`
	Msg     []int  `json:"msg"`    // bytes
	Digest  []int  `json:"digest"` // 32 bytes, the SPEC's digest
	R1CS    bool   `json:"r1cs"`
}
type c04Cases struct {
	Cases []c04Case `json:"cases"`
}

type keccakCircuit struct {
	In  []frontend.Variable
	Out []frontend.Variable
	dom string
}

var keccakCaptured []*big.Int

func (c *keccakCircuit) Define(api frontend.API) error {
	var h []frontend.Variable
	if c.dom == "keccak" {
		h = keccak.NewKeccak256(api, len(c.In), c.In...)
	} else {
		h = keccak.NewSHA3_256(api, len(c.In), c.In...)
	}
	if len(h) != len(c.Out) {
		return fmt.Errorf("gadget returned %d bits", len(h))
	}
	keccakCaptured = keccakCaptured[:0]
	for i := range h {
		keccakCaptured = append(keccakCaptured, constOf(api, h[i]))
	}
	for i := range h {
		api.AssertIsEqual(h[i], c.Out[i])
	}
	return nil
}

// two hashes over nested windows of ONE buffer inside one circuit (first In[:8*N1], then the whole of In, or the other way round):
// a gadget is a function of the bits it is handed and leaves its caller's slice alone
type nestedKeccakCircuit struct {
	In    []frontend.Variable
	Out1  []frontend.Variable
	Out2  []frontend.Variable
	n1    int
	dom   string
	first int // 1: short window first, 2: whole buffer first
}

func (c *nestedKeccakCircuit) Define(api frontend.API) error {
	hash := func(in []frontend.Variable) []frontend.Variable {
		if c.dom == "keccak" {
			return keccak.NewKeccak256(api, len(in), in...)
		}
		return keccak.NewSHA3_256(api, len(in), in...)
	}
	var h1, h2 []frontend.Variable
	if c.first == 1 {
		h1 = hash(c.In[:8*c.n1])
		h2 = hash(c.In)
	} else {
		h2 = hash(c.In)
		h1 = hash(c.In[:8*c.n1])
	}
	for i := range c.Out1 {
		api.AssertIsEqual(h1[i], c.Out1[i])
		api.AssertIsEqual(h2[i], c.Out2[i])
	}
	return nil
}

func bitsOfBytes(bs []int) []frontend.Variable {
	out := make([]frontend.Variable, 0, 8*len(bs))
	for _, b := range bs {
		for k := 0; k < 8; k++ {
			out = append(out, (b>>k)&1)
		}
	}
	return out
}

func kShape(n int, dom string) *keccakCircuit {
	return &keccakCircuit{In: make([]frontend.Variable, 8*n), Out: make([]frontend.Variable, 256), dom: dom}
}
func kAssign(c *c04Case, digest []int) *keccakCircuit {
	return &keccakCircuit{In: bitsOfBytes(c.Msg), Out: bitsOfBytes(digest), dom: c.Dom}
}

func hexBytes(bs []int) string {
	s := ""
	for _, b := range bs {
		s += fmt.Sprintf("%02x", b)
	}
	return s
}

func init() {
	commands["c04"] = func(args []string) {
		var cs c04Cases
		loadCases(args, &cs)
		for _, c := range cs.Cases {
			c := c
			id := fmt.Sprintf("%s/len=%d/%s", c.Dom, c.Len, c.Content)
			// spec-vs-reference (spec bug if it fails)
			raw := make([]byte, len(c.Msg))
			for i, b := range c.Msg {
				raw[i] = byte(b)
			}
			var ref []byte
			if c.Dom == "keccak" {
				h := sha3.NewLegacyKeccak256()
				h.Write(raw)
				ref = h.Sum(nil)
			} else {
				h := sha3.New256()
				h.Write(raw)
				ref = h.Sum(nil)
			}
			refI := make([]int, 32)
			for i := range ref {
				refI[i] = int(ref[i])
			}
			if hexBytes(refI) != hexBytes(c.Digest) {
				emit(Result{ID: id, OK: false, Kind: "spec-vs-reference", Expected: hexBytes(c.Digest), Observed: hexBytes(refI)})
				continue
			}
			r := Result{ID: id, OK: true, Kind: "keccak", Expected: hexBytes(c.Digest)}
			keccakCaptured = nil
			err := engineSolved(kShape(c.Len, c.Dom), kAssign(&c, c.Digest), bn254R)
			if len(keccakCaptured) == 256 {
				got := make([]int, 32)
				for i, b := range keccakCaptured {
					if b != nil && b.Sign() != 0 {
						got[i/8] |= 1 << (i % 8)
					}
				}
				r.Observed = hexBytes(got)
			}
			if err != nil {
				r.OK, r.Detail = false, "gadget rejects the spec's digest: "+firstLine(err.Error())
			} else {
				// any other claimed digest must be unsatisfiable (flip one bit, position varies with the case)
				bad := append([]int(nil), c.Digest...)
				pos := (c.Len*7 + 3) % 256
				bad[pos/8] ^= 1 << (pos % 8)
				if engineSolved(kShape(c.Len, c.Dom), kAssign(&c, bad), bn254R) == nil {
					r.OK, r.Detail = false, "gadget accepts a digest that differs in one bit"
				}
			}
			if r.OK && c.R1CS {
				ccs, cerr := compileR1CS(bn254R, kShape(c.Len, c.Dom))
				if cerr != nil {
					r.OK, r.Detail = false, "compile: "+cerr.Error()
				} else {
					if e := r1csSolved(ccs, kAssign(&c, c.Digest), bn254R); e != nil {
						r.OK, r.Detail = false, "R1CS rejects the spec's digest: "+firstLine(e.Error())
					}
					bad := append([]int(nil), c.Digest...)
					bad[31] ^= 0x80
					if e := r1csSolved(ccs, kAssign(&c, bad), bn254R); e == nil {
						r.OK, r.Detail = false, "R1CS accepts a wrong digest"
					}
				}
			}
			if !r.OK {
				r.Case = map[string]interface{}{"cases": []c04Case{c}}
			}
			emit(r)
		}
		// nested windows: pairs of cases of this batch where one message is a proper prefix of the other
		pairs := 0
		for i := range cs.Cases {
			for j := range cs.Cases {
				a, b := cs.Cases[i], cs.Cases[j]
				if pairs >= 8 || a.Dom != b.Dom || a.Len >= b.Len || hexBytes(b.Msg[:a.Len]) != hexBytes(a.Msg) {
					continue
				}
				pairs++
				for first := 1; first <= 2; first++ {
					shape := &nestedKeccakCircuit{In: make([]frontend.Variable, 8*b.Len), Out1: make([]frontend.Variable, 256), Out2: make([]frontend.Variable, 256), n1: a.Len, dom: a.Dom, first: first}
					assign := &nestedKeccakCircuit{In: bitsOfBytes(b.Msg), Out1: bitsOfBytes(a.Digest), Out2: bitsOfBytes(b.Digest), n1: a.Len, dom: a.Dom, first: first}
					r := Result{ID: fmt.Sprintf("%s/nested/len=%d-in-%d/%s/first=%d", a.Dom, a.Len, b.Len, b.Content, first), OK: true, Kind: "keccak-nested", Trivial: true}
					if err := engineSolved(shape, assign, bn254R); err != nil {
						r.OK = false
						r.Detail = fmt.Sprintf("one circuit hashing the first %d bytes of a %d-byte buffer and the whole buffer (order %d) rejects the spec's two digests: %s", a.Len, b.Len, first, firstLine(err.Error()))
						r.Case = map[string]interface{}{"cases": []c04Case{a, b}}
					}
					emit(r)
				}
			}
		}
	}
}
