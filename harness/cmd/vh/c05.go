//go:build g_poseidon

package main

import (
	"encoding/json"
	"fmt"
	"math/big"
	"sync"

	"github.com/consensys/gnark/frontend"
	"github.com/iden3/go-iden3-crypto/poseidon"
	"github.com/reilabs/gnark-lean-extractor/v2/abstractor"
	gposeidon "worldcoin/gnark-mbu/prover/poseidon"
)

// A session = one circuit making several Poseidon gadget calls in order.
type posCall struct {
	In    []json_num        `json:"in"`
	Wires []json.RawMessage `json:"wires"` // per input: [value] or ["ref", k] = the output wire of call k (1-based)
	Out   json_num          `json:"out"`
}

// refOf: k if input j of the call is the output wire of call k, else 0
func (c *posCall) refOf(j int) int {
	if j >= len(c.Wires) {
		return 0
	}
	var w []interface{}
	if json.Unmarshal(c.Wires[j], &w) == nil && len(w) == 2 {
		if s, ok := w[0].(string); ok && s == "ref" {
			if k, ok := w[1].(float64); ok {
				return int(k)
			}
		}
	}
	return 0
}

type c05Cases struct {
	Mode     string      `json:"mode"` // "small" | "bn254"
	P        string      `json:"p"`
	R1CS     bool        `json:"r1cs"`
	Sessions [][]posCall `json:"sessions"`
}

type posSessionCircuit struct {
	In       [][]frontend.Variable
	Out      []frontend.Variable
	refs     [][]int // refs[i][j] = k > 0: input j of call i is the OUTPUT WIRE of call k
	captured []*big.Int
}

func (c *posSessionCircuit) Define(api frontend.API) error {
	c.captured = c.captured[:0]
	outs := make([]frontend.Variable, len(c.In))
	for i, in := range c.In {
		arg := func(j int) frontend.Variable {
			if c.refs != nil && c.refs[i][j] > 0 {
				// the declared input carries the digest's value; the gadget is fed the WIRE itself
				api.AssertIsEqual(in[j], outs[c.refs[i][j]-1])
				return outs[c.refs[i][j]-1]
			}
			return in[j]
		}
		var o frontend.Variable
		if len(in) == 1 {
			o = abstractor.Call(api, gposeidon.Poseidon1{In: arg(0)})
		} else {
			o = abstractor.Call(api, gposeidon.Poseidon2{In1: arg(0), In2: arg(1)})
		}
		outs[i] = o
		posCaptured = append(posCaptured, constOf(api, o))
	}
	// every digest is compared AFTER all calls were made: a digest fed into a later hash is used again here
	for i := range outs {
		api.AssertIsEqual(outs[i], c.Out[i])
	}
	return nil
}

var posCaptured []*big.Int

func posShape(sess []posCall) *posSessionCircuit {
	c := &posSessionCircuit{In: make([][]frontend.Variable, len(sess)), Out: make([]frontend.Variable, len(sess)), refs: make([][]int, len(sess))}
	for i := range sess {
		call := &sess[i]
		c.In[i] = make([]frontend.Variable, len(call.In))
		c.refs[i] = make([]int, len(call.In))
		for j := range call.In {
			c.refs[i][j] = call.refOf(j)
		}
	}
	return c
}

func posAssign(sess []posCall, outs []*big.Int) *posSessionCircuit {
	c := posShape(sess)
	for i, call := range sess {
		for j, v := range call.In {
			c.In[i][j] = v.big()
		}
		c.Out[i] = outs[i]
	}
	return c
}

// posAbortCircuit: a hash whose construction fails half-way (a nil operand, as an unassigned wire of a larger circuit would be):
// whatever the gadget was doing when it gave up must not leak into later hashes of the process
type posAbortCircuit struct {
	X     frontend.Variable
	arity int
}

func (c *posAbortCircuit) Define(api frontend.API) error {
	if c.arity == 1 {
		abstractor.Call(api, gposeidon.Poseidon1{In: nil})
	} else {
		abstractor.Call(api, gposeidon.Poseidon2{In1: c.X, In2: nil})
	}
	return nil
}

func abortedHash(mod *big.Int, arity int) {
	defer func() { recover() }()
	engineSolved(&posAbortCircuit{arity: arity}, &posAbortCircuit{X: 1, arity: arity}, mod)
}

func init() {
	// mixed-field sessions: one process evaluates the gadget over several fields, interleaved (a test binary or tool that builds circuits for
	// more than one curve).  What Poseidon computes over one field must not depend on which field the process touched first.
	commands["c05-mixed"] = func(args []string) {
		var cs struct {
			Groups []c05Cases `json:"groups"`
		}
		loadCases(args, &cs)
		most := 0
		for _, g := range cs.Groups {
			if len(g.Sessions) > most {
				most = len(g.Sessions)
			}
		}
		for si := 0; si < most; si++ {
			for gi, g := range cs.Groups {
				if si >= len(g.Sessions) {
					continue
				}
				mod := bigOf(g.P)
				sess := g.Sessions[si]
				exp := make([]*big.Int, len(sess))
				for i, c := range sess {
					exp[i] = c.Out.big()
				}
				r := Result{ID: fmt.Sprintf("mixed/group%d/%s/p=%s/session%d", gi, g.Mode, g.P, si), OK: true, Kind: "poseidon-mixed-fields"}
				err := engineSolved(posShape(sess), posAssign(sess, exp), mod)
				if err == nil && g.R1CS && si < 2 {
					ccs, cerr := compileR1CS(mod, posShape(sess))
					if err = cerr; err == nil {
						err = r1csSolved(ccs, posAssign(sess, exp), mod)
					}
				}
				if err != nil {
					first := cs.Groups[0]
					r.OK = false
					r.Detail = fmt.Sprintf("in a process that first evaluated Poseidon over p=%s, the gadget over p=%s rejects the spec's outputs: %s", first.P, g.P, firstLine(err.Error()))
					r.Case = map[string]interface{}{"groups": cs.Groups}
				}
				emit(r)
			}
		}
	}
	commands["c05"] = func(args []string) {
		var cs c05Cases
		loadCases(args, &cs)
		mod := bigOf(cs.P)
		for si, sess := range cs.Sessions {
			id := fmt.Sprintf("%s/p=%s/session%d", cs.Mode, cs.P, si)
			exp := make([]*big.Int, len(sess))
			for i, c := range sess {
				exp[i] = c.Out.big()
			}
			// spec-vs-reference cross-check (a disagreement here is a SPEC bug): iden3 reference at BN254
			if cs.Mode == "bn254" {
				for i, c := range sess {
					ins := make([]*big.Int, len(c.In))
					for j, v := range c.In {
						ins[j] = v.big()
					}
					ref, err := poseidon.Hash(ins)
					if err != nil || ref.Cmp(exp[i]) != 0 {
						emit(Result{ID: id, OK: false, Kind: "spec-vs-reference", Expected: exp[i].String(), Observed: fmt.Sprint(ref), Detail: "spec Poseidon differs from go-iden3-crypto"})
					}
				}
			}
			// 1. gadget outputs in the test engine
			posCaptured = nil
			err := engineSolved(posShape(sess), posAssign(sess, exp), mod)
			obs := make([]string, len(posCaptured))
			for i, v := range posCaptured {
				obs[i] = fmt.Sprint(v)
			}
			es := make([]string, len(exp))
			for i, v := range exp {
				es[i] = v.String()
			}
			ok := err == nil
			detail := ""
			if err != nil {
				detail = "test engine rejects the spec's outputs: " + firstLine(err.Error())
			}
			// 2. any other claimed output must be rejected
			if ok {
				for i := range exp {
					bad := make([]*big.Int, len(exp))
					copy(bad, exp)
					bad[i] = new(big.Int).Mod(new(big.Int).Add(exp[i], big.NewInt(1)), mod)
					if engineSolved(posShape(sess), posAssign(sess, bad), mod) == nil {
						ok = false
						detail = fmt.Sprintf("gadget accepts a wrong output for call %d", i)
					}
				}
			}
			// 3. compiled R1CS
			if ok && cs.R1CS {
				ccs, cerr := compileR1CS(mod, posShape(sess))
				if cerr != nil {
					ok, detail = false, "compile: "+cerr.Error()
				} else {
					if e := r1csSolved(ccs, posAssign(sess, exp), mod); e != nil {
						ok, detail = false, "R1CS rejects the spec's outputs: "+firstLine(e.Error())
					}
					bad := make([]*big.Int, len(exp))
					copy(bad, exp)
					bad[len(bad)-1] = new(big.Int).Mod(new(big.Int).Add(exp[len(bad)-1], big.NewInt(1)), mod)
					if e := r1csSolved(ccs, posAssign(sess, bad), mod); e == nil {
						ok, detail = false, "R1CS accepts a wrong output"
					}
				}
			}
			r := Result{ID: id, OK: ok, Kind: "poseidon-session", Expected: es, Observed: obs, Detail: detail}
			if !ok {
				r.Case = map[string]interface{}{"mode": cs.Mode, "p": cs.P, "r1cs": cs.R1CS, "sessions": [][]posCall{sess}}
			}
			emit(r)
		}
		// the gadget is a function of its operands: (a) hashes whose construction was abandoned half-way, (b) circuits built on several
		// goroutines at the same time (a service compiling or solving two systems at once) must not change what later / parallel hashes compute
		if len(cs.Sessions) == 0 {
			return
		}
		recheck := func(kind string, n int) {
			for si := 0; si < len(cs.Sessions) && si < n; si++ {
				sess := cs.Sessions[si]
				exp := make([]*big.Int, len(sess))
				for i, c := range sess {
					exp[i] = c.Out.big()
				}
				r := Result{ID: fmt.Sprintf("%s/p=%s/%s/session%d", cs.Mode, cs.P, kind, si), OK: true, Kind: "poseidon-" + kind, Trivial: true}
				if err := engineSolved(posShape(sess), posAssign(sess, exp), mod); err != nil {
					r.OK = false
					r.Detail = fmt.Sprintf("%s: the test engine now rejects outputs of session %d that it accepted before: %s", kind, si, firstLine(err.Error()))
					r.Case = map[string]interface{}{"mode": cs.Mode, "p": cs.P, "r1cs": cs.R1CS, "sessions": cs.Sessions}
				}
				emit(r)
			}
		}
		abortedHash(mod, 2)
		recheck("after-aborted-hash-2", 4)
		abortedHash(mod, 1)
		abortedHash(mod, 2)
		abortedHash(mod, 2)
		recheck("after-aborted-hashes", 4)
		if cs.R1CS {
			type cres struct {
				si  int
				err error
			}
			n := len(cs.Sessions)
			if n > 6 {
				n = 6
			}
			out := make(chan cres, 64)
			var wg sync.WaitGroup
			for round := 0; round < 3; round++ {
				for si := 0; si < n; si++ {
					wg.Add(1)
					go func(si int) {
						defer wg.Done()
						sess := cs.Sessions[si]
						exp := make([]*big.Int, len(sess))
						for i, c := range sess {
							exp[i] = c.Out.big()
						}
						ccs, err := compileR1CS(mod, posShape(sess))
						if err == nil {
							err = r1csSolved(ccs, posAssign(sess, exp), mod)
						}
						out <- cres{si, err}
					}(si)
				}
			}
			wg.Wait()
			close(out)
			for x := range out {
				r := Result{ID: fmt.Sprintf("%s/p=%s/concurrent-compile/session%d", cs.Mode, cs.P, x.si), OK: x.err == nil, Kind: "poseidon-concurrent", Trivial: true}
				if x.err != nil {
					r.Detail = fmt.Sprintf("session %d compiled and solved on one of %d goroutines working at the same time rejects the spec's outputs: %s", x.si, 3*n, firstLine(x.err.Error()))
					r.Case = map[string]interface{}{"mode": cs.Mode, "p": cs.P, "r1cs": cs.R1CS, "sessions": cs.Sessions}
				}
				emit(r)
			}
		}
	}
}
