//go:build g_bits

package main

import (
	"fmt"
	"math/big"

	"github.com/consensys/gnark/constraint"
	"github.com/consensys/gnark/frontend"
	"github.com/reilabs/gnark-lean-extractor/v2/abstractor"
	"worldcoin/gnark-mbu/prover"
)

type c06Case struct {
	P       string `json:"p"`
	N       int    `json:"n"`
	Bits    []int  `json:"bits"` // little-endian digits, 2 = non-boolean
	Accept  bool   `json:"accept"`
	Cmp     string `json:"cmp"`
	Emitted []int  `json:"emitted"`
	Value   string `json:"value"`
}
type c06Cases struct {
	Cases []c06Case `json:"cases"`
	R1CS  bool      `json:"r1cs"` // also run on the compiled R1CS (modulus 47 or BN254 only)
}

// ReducedModRCheck alone, digits as circuit inputs
type rcCircuit struct{ Bits []frontend.Variable }

func (c *rcCircuit) Define(api frontend.API) error {
	abstractor.CallVoid(api, prover.ReducedModRCheck{Input: c.Bits})
	return nil
}

// ToReducedBigEndian on a field element; the emitted bits are outputs
type tobeCircuit struct {
	V    frontend.Variable
	Out  []frontend.Variable
	size int
}

var tobeCaptured []*big.Int

func (c *tobeCircuit) Define(api frontend.API) error {
	out := abstractor.Call1(api, prover.ToReducedBigEndian{Variable: c.V, Size: c.size})
	if len(out) != len(c.Out) {
		return fmt.Errorf("emitted %d bits, want %d", len(out), len(c.Out))
	}
	tobeCaptured = tobeCaptured[:0]
	for i := range out {
		tobeCaptured = append(tobeCaptured, constOf(api, out[i]))
	}
	for i := range out {
		api.AssertIsEqual(out[i], c.Out[i])
	}
	return nil
}

// FromBinaryBigEndian
type frombeCircuit struct {
	Bits []frontend.Variable
	V    frontend.Variable
	Keep []frontend.Variable // optional second copy of the bit string: the gadget's operand must still be this string afterwards
}

func (c *frombeCircuit) Define(api frontend.API) error {
	v := abstractor.Call(api, prover.FromBinaryBigEndian{Variable: c.Bits})
	api.AssertIsEqual(v, c.V)
	if len(c.Keep) > 0 {
		// a gadget is a function of its operands and leaves them alone: the caller's bit string is unchanged, recomposing it again gives
		// the same element, and decomposing that element gives the string back
		for i := range c.Keep {
			api.AssertIsEqual(c.Bits[i], c.Keep[i])
		}
		api.AssertIsEqual(abstractor.Call(api, prover.FromBinaryBigEndian{Variable: c.Bits}), c.V)
		back := abstractor.Call1(api, prover.ToReducedBigEndian{Variable: v, Size: len(c.Keep)})
		for i := range c.Keep {
			api.AssertIsEqual(back[i], c.Keep[i])
		}
	}
	return nil
}

func init() {
	commands["c06"] = func(args []string) {
		var cs c06Cases
		loadCases(args, &cs)
		type key struct {
			p string
			n int
		}
		rcCCS := map[key]constraint.ConstraintSystem{}
		tobeCCS := map[key]constraint.ConstraintSystem{}
		for ci, c := range cs.Cases {
			c := c
			mod := bigOf(c.P)
			id := fmt.Sprintf("p=%s/n=%d/case%d", shortNum(c.P), c.N, ci)
			boolean := true
			for _, b := range c.Bits {
				if b > 1 {
					boolean = false
				}
			}
			r := Result{ID: id, OK: true, Kind: "reduced-check", Expected: map[string]interface{}{"accept": c.Accept, "cmp": c.Cmp}}
			fail := func(format string, a ...interface{}) {
				if r.OK {
					r.OK = false
					r.Detail = fmt.Sprintf(format, a...)
				}
			}
			// (A) the check gadget alone, test engine
			errA := engineSolved(&rcCircuit{Bits: make([]frontend.Variable, c.N)}, &rcCircuit{Bits: varsOf(c.Bits)}, mod)
			if (errA == nil) != c.Accept {
				fail("ReducedModRCheck in the test engine: accepted=%v, spec says %v (cmp=%s)", errA == nil, c.Accept, c.Cmp)
			}
			useR1CS := cs.R1CS && (c.P == "47" || mod.Cmp(bn254R) == 0)
			k := key{c.P, c.N}
			if useR1CS {
				ccs, ok := rcCCS[k]
				if !ok {
					var err error
					ccs, err = compileR1CS(mod, &rcCircuit{Bits: make([]frontend.Variable, c.N)})
					if err != nil {
						die("compile rc: %v", err)
					}
					rcCCS[k] = ccs
				}
				e := r1csSolved(ccs, &rcCircuit{Bits: varsOf(c.Bits)}, mod)
				if (e == nil) != c.Accept {
					fail("ReducedModRCheck as R1CS: accepted=%v, spec says %v (cmp=%s)", e == nil, c.Accept, c.Cmp)
				}
			}
			val := new(big.Int)
			if c.Value != "" {
				val = bigOf(c.Value)
			}
			vmod := new(big.Int).Mod(val, mod)
			if boolean && c.N%8 == 0 {
				// (B) honest ToReducedBigEndian on the canonical representative: emitted bits = spec's big-endian string
				if c.Accept && val.Cmp(mod) < 0 {
					tobeCaptured = nil
					e := engineSolved(&tobeCircuit{Out: make([]frontend.Variable, c.N), size: c.N}, &tobeCircuit{V: val, Out: varsOf(c.Emitted), size: c.N}, mod)
					if e != nil {
						got := make([]int, len(tobeCaptured))
						for i, b := range tobeCaptured {
							if b != nil {
								got[i] = int(b.Int64())
							}
						}
						r.Observed = got
						fail("ToReducedBigEndian(%s, %d) does not emit the spec's big-endian bit string %v: %s", val, c.N, c.Emitted, firstLine(e.Error()))
					}
					// (C) FromBinaryBigEndian of the emitted string is the value
					e = engineSolved(&frombeCircuit{Bits: make([]frontend.Variable, c.N)}, &frombeCircuit{Bits: varsOf(c.Emitted), V: vmod}, mod)
					if e != nil {
						fail("FromBinaryBigEndian(%v) is not %s: %s", c.Emitted, vmod, firstLine(e.Error()))
					}
					e = engineSolved(&frombeCircuit{Bits: make([]frontend.Variable, c.N), Keep: make([]frontend.Variable, c.N)}, &frombeCircuit{Bits: varsOf(c.Emitted), V: vmod, Keep: varsOf(c.Emitted)}, mod)
					if e != nil {
						fail("FromBinaryBigEndian(%v) used twice / followed by ToReducedBigEndian in one circuit: the bit string handed to the gadget is no longer the same string, or does not recompose / decompose to the same values: %s", c.Emitted, firstLine(e.Error()))
					}
					wrong := new(big.Int).Mod(new(big.Int).Add(vmod, big.NewInt(1)), mod)
					if engineSolved(&frombeCircuit{Bits: make([]frontend.Variable, c.N)}, &frombeCircuit{Bits: varsOf(c.Emitted), V: wrong}, mod) == nil {
						fail("FromBinaryBigEndian accepts a wrong value")
					}
				}
				// (D) dishonest prover: the NBits hint returns exactly these digits for the element they denote mod p
				if useR1CS {
					ccs, ok := tobeCCS[k]
					if !ok {
						var err error
						ccs, err = compileR1CS(mod, &tobeCircuit{Out: make([]frontend.Variable, c.N), size: c.N})
						if err != nil {
							die("compile tobe: %v", err)
						}
						tobeCCS[k] = ccs
					}
					digits := c.Bits
					evil := func(_ *big.Int, inputs []*big.Int, results []*big.Int) error {
						// lie only on the n-digit decomposition under test; any other decomposition is answered honestly
						if len(results) != len(digits) {
							for i := range results {
								results[i].SetUint64(uint64(inputs[0].Bit(i)))
							}
							return nil
						}
						for i := range results {
							results[i].SetInt64(int64(digits[i]))
						}
						return nil
					}
					// emitted bits of THIS digit vector (what the circuit would feed to Keccak)
					em := make([]int, c.N)
					for kk := 0; kk < c.N; kk++ {
						g, j := kk/8, kk%8
						em[kk] = digits[(c.N-8-8*g)+j]
					}
					e := r1csSolved(ccs, &tobeCircuit{V: vmod, Out: varsOf(em), size: c.N}, mod, replaceHint(nBitsHint, evil))
					if (e == nil) != c.Accept {
						fail("ToReducedBigEndian as R1CS with the prover-chosen decomposition %s of %s: accepted=%v, spec says %v (cmp=%s)", val, vmod, e == nil, c.Accept, c.Cmp)
					}
				}
			}
			if !r.OK {
				r.Case = map[string]interface{}{"cases": []c06Case{c}, "r1cs": cs.R1CS}
			}
			emit(r)
		}
	}
}

func shortNum(s string) string {
	if len(s) > 12 {
		return s[:6] + "…"
	}
	return s
}
