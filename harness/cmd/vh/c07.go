package main

// C07: Prover.tla behaviours (Prove with parameter classes, Verify with hash candidates across
// systems) executed on real Groth16 systems.

import (
	"fmt"
	"github.com/iden3/go-iden3-crypto/poseidon"
	"math/big"
	"math/rand"
	"sync"
	"worldcoin/gnark-mbu/poseidon_tree"

	"worldcoin/gnark-mbu/prover"
)

type c07Step struct {
	Op     string `json:"op"`
	Sys    string `json:"sys"`
	Cls    string `json:"cls"`
	Batch  int    `json:"batch"`
	OK     bool   `json:"ok"`
	Token  int    `json:"token"`
	Cand   string `json:"cand"`
	Accept bool   `json:"accept"`
}

type issued struct {
	sys   string
	proof *prover.Proof
	hash  *big.Int
	other *big.Int // input hash of a perturbed batch
}

// foldPath: the root obtained by climbing from a leaf at position idx with the given siblings (iden3 reference Poseidon)
func foldPath(leaf *big.Int, idx uint32, proof []big.Int) *big.Int {
	cur := new(big.Int).Set(leaf)
	for l := range proof {
		var h *big.Int
		var err error
		if (idx>>uint(l))&1 == 0 {
			h, err = poseidon.Hash([]*big.Int{cur, &proof[l]})
		} else {
			h, err = poseidon.Hash([]*big.Int{&proof[l], cur})
		}
		if err != nil {
			die("poseidon: %v", err)
		}
		cur = h
	}
	return cur
}

// occupiedLastInsertion: a batch that is consistent in every respect (genuine sibling paths, post-root = the tree's root after writing
// every slot, matching hash) except that the LAST slot's leaf is already occupied
func occupiedLastInsertion(rng *rand.Rand, depth, batch int) *prover.InsertionParameters {
	tree := poseidon_tree.NewTree(depth)
	start := 0
	if (1<<depth)-batch > 0 {
		start = rng.Intn((1 << depth) - batch + 1)
	}
	for i := 0; i < start; i++ {
		tree.Update(i, *randField(rng))
	}
	tree.Update(start+batch-1, *randField(rng)) // the occupant
	p := &prover.InsertionParameters{StartIndex: uint32(start)}
	p.PreRoot = tree.Root()
	p.IdComms = make([]big.Int, batch)
	p.MerkleProofs = make([][]big.Int, batch)
	for i := 0; i < batch; i++ {
		p.IdComms[i] = *randField(rng)
		p.MerkleProofs[i] = tree.Update(start+i, p.IdComms[i])
	}
	p.PostRoot = tree.Root()
	p.InputHash = *refInputHashInsertion(p)
	return p
}

func mutateIns(rng *rand.Rand, p *prover.InsertionParameters, cls string, depth int) {
	one := big.NewInt(1)
	rehash := func() { p.InputHash = *refInputHashInsertion(p) }
	switch cls {
	case "wrong-post":
		p.PostRoot.Add(&p.PostRoot, one).Mod(&p.PostRoot, bn254R)
		rehash()
	case "wrong-pre":
		p.PreRoot.Add(&p.PreRoot, one).Mod(&p.PreRoot, bn254R)
		rehash()
	case "wrong-path":
		i, j := rng.Intn(len(p.MerkleProofs)), rng.Intn(depth)
		p.MerkleProofs[i][j].Add(&p.MerkleProofs[i][j], one).Mod(&p.MerkleProofs[i][j], bn254R)
	case "wrong-hash":
		p.InputHash.Add(&p.InputHash, one)
	case "forged-last":
		// a junk sibling in the last slot, with the post-root and the hash recomputed from it: consistent with a circuit that
		// forgot to tie that slot's path to the running root
		k := len(p.MerkleProofs) - 1
		j := rng.Intn(depth)
		p.MerkleProofs[k][j] = *randField(rng)
		p.PostRoot = *foldPath(&p.IdComms[k], p.StartIndex+uint32(k), p.MerkleProofs[k])
		rehash()
	case "occupied-last":
		*p = *occupiedLastInsertion(rng, depth, len(p.IdComms))
	case "start-shifted":
		p.StartIndex = (p.StartIndex + 1) % (1 << depth)
		rehash()
	case "start-out-of-range":
		p.StartIndex = p.StartIndex + uint32(1<<depth)
		rehash()
	case "swapped-roots":
		p.PreRoot, p.PostRoot = p.PostRoot, p.PreRoot
		rehash()
	case "ids+1":
		p.IdComms = append(p.IdComms, *one)
	case "ids-1":
		p.IdComms = p.IdComms[:len(p.IdComms)-1]
	case "proofs+1":
		p.MerkleProofs = append(p.MerkleProofs, p.MerkleProofs[0])
	case "proofs-1":
		p.MerkleProofs = p.MerkleProofs[:len(p.MerkleProofs)-1]
	case "row+1":
		k := len(p.MerkleProofs) - 1
		p.MerkleProofs[k] = append(append([]big.Int(nil), p.MerkleProofs[k]...), *one)
	case "row-1":
		k := len(p.MerkleProofs) - 1
		p.MerkleProofs[k] = p.MerkleProofs[k][:len(p.MerkleProofs[k])-1]
	case "empty":
		p.IdComms, p.MerkleProofs = nil, nil
	}
}

func mutateDel(rng *rand.Rand, p *prover.DeletionParameters, cls string, depth int) {
	one := big.NewInt(1)
	rehash := func() { p.InputHash = *refInputHashDeletion(p) }
	switch cls {
	case "wrong-post":
		p.PostRoot.Add(&p.PostRoot, one).Mod(&p.PostRoot, bn254R)
		rehash()
	case "wrong-pre":
		p.PreRoot.Add(&p.PreRoot, one).Mod(&p.PreRoot, bn254R)
		rehash()
	case "wrong-path":
		p.MerkleProofs[0][0].Add(&p.MerkleProofs[0][0], one).Mod(&p.MerkleProofs[0][0], bn254R)
	case "forged-last":
		k := len(p.MerkleProofs) - 1
		if p.DeletionIndices[k] < 1<<uint(depth) {
			j := rng.Intn(depth)
			p.MerkleProofs[k][j] = *randField(rng)
			p.PostRoot = *foldPath(big.NewInt(0), p.DeletionIndices[k], p.MerkleProofs[k])
		} else {
			p.PostRoot.Add(&p.PostRoot, one).Mod(&p.PostRoot, bn254R) // last slot is padding: nothing to forge there
		}
		rehash()
	case "wrong-leaf":
		p.IdComms[0].Add(&p.IdComms[0], one).Mod(&p.IdComms[0], bn254R)
	case "wrong-hash":
		p.InputHash.Add(&p.InputHash, one)
	case "idx-too-high":
		p.DeletionIndices[0] += uint32(1 << uint(depth+1))
		rehash()
	case "idx-shifted":
		p.DeletionIndices[0] = (p.DeletionIndices[0] + 1) % (1 << depth)
		rehash()
	case "swapped-roots":
		p.PreRoot, p.PostRoot = p.PostRoot, p.PreRoot
		rehash()
	case "ids+1":
		p.IdComms = append(p.IdComms, *one)
	case "ids-1":
		p.IdComms = p.IdComms[:len(p.IdComms)-1]
	case "idxs+1":
		p.DeletionIndices = append(p.DeletionIndices, 0)
	case "idxs-1":
		p.DeletionIndices = p.DeletionIndices[:len(p.DeletionIndices)-1]
	case "proofs+1":
		p.MerkleProofs = append(p.MerkleProofs, p.MerkleProofs[0])
	case "proofs-1":
		p.MerkleProofs = p.MerkleProofs[:len(p.MerkleProofs)-1]
	case "row+1":
		k := len(p.MerkleProofs) - 1
		p.MerkleProofs[k] = append(append([]big.Int(nil), p.MerkleProofs[k]...), *one)
	case "row-1":
		k := len(p.MerkleProofs) - 1
		p.MerkleProofs[k] = p.MerkleProofs[k][:len(p.MerkleProofs[k])-1]
	case "empty":
		p.IdComms, p.MerkleProofs, p.DeletionIndices = nil, nil, nil
	}
}

func init() {
	commands["c07"] = func(args []string) {
		var cs struct {
			Systems    []sysSpec   `json:"systems"`
			Behaviours [][]c07Step `json:"behaviours"`
			Rounds     int         `json:"concurrentRounds"` // rounds of simultaneous Prove calls per system (each must behave as if run alone)
			Width      int         `json:"concurrentWidth"`
		}
		loadCases(args, &cs)
		rng := rand.New(rand.NewSource(seed()))
		systems := map[string]*prover.ProvingSystem{}
		spec := map[string]sysSpec{}
		for _, s := range cs.Systems {
			systems[s.ID] = buildSystem(s) // independent setups: two systems of equal dimensions have different keys
			spec[s.ID] = s
		}
		// Prove is one atomic action in Prover.tla: simultaneous calls on the same system must each behave as if run alone
		for _, sp := range cs.Systems {
			if cs.Rounds == 0 {
				break
			}
			ps := systems[sp.ID]
			r := Result{ID: "concurrent/" + sp.ID, OK: true, Kind: "prover-concurrent"}
			for round := 0; round < cs.Rounds && r.OK; round++ {
				type job struct {
					ins  *prover.InsertionParameters
					del  *prover.DeletionParameters
					hash *big.Int
					pr   *prover.Proof
					err  error
				}
				jobs := make([]*job, cs.Width)
				for i := range jobs {
					j := &job{}
					if sp.Mode == "insertion" {
						j.ins = randomValidInsertion(rng, int(sp.Depth), int(sp.Batch))
						j.hash = new(big.Int).Set(&j.ins.InputHash)
					} else {
						j.del = randomValidDeletion(rng, int(sp.Depth), int(sp.Batch))
						j.hash = new(big.Int).Set(&j.del.InputHash)
					}
					jobs[i] = j
				}
				start := make(chan struct{})
				var wg sync.WaitGroup
				for _, j := range jobs {
					wg.Add(1)
					go func(j *job) {
						defer wg.Done()
						<-start
						if j.ins != nil {
							j.pr, j.err = ps.ProveInsertion(j.ins)
						} else {
							j.pr, j.err = ps.ProveDeletion(j.del)
						}
					}(j)
				}
				close(start)
				wg.Wait()
				for i, j := range jobs {
					var verr error
					if j.err == nil && j.pr != nil {
						if sp.Mode == "insertion" {
							verr = ps.VerifyInsertion(*j.hash, j.pr)
						} else {
							verr = ps.VerifyDeletion(*j.hash, j.pr)
						}
					}
					if j.err != nil || j.pr == nil || verr != nil {
						r.OK = false
						r.Detail = fmt.Sprintf("round %d: %d simultaneous Prove calls on system %s: call %d on a VALID batch returned err=%v, own-hash verification=%v", round, cs.Width, sp.ID, i, j.err, verr)
						r.Case = map[string]interface{}{"systems": []sysSpec{sp}, "behaviours": [][]c07Step{}, "concurrentRounds": cs.Rounds, "concurrentWidth": cs.Width}
						break
					}
				}
			}
			emit(r)
		}
		for bi, bh := range cs.Behaviours {
			r := Result{ID: fmt.Sprintf("behaviour%d", bi), OK: true, Kind: "prover"}
			fail := func(format string, a ...interface{}) {
				if r.OK {
					r.OK, r.Detail = false, fmt.Sprintf(format, a...)
					r.Case = map[string]interface{}{"systems": cs.Systems, "behaviours": [][]c07Step{bh}}
				}
			}
			var tokens []issued
			for si, st := range bh {
				s := spec[st.Sys]
				ps := systems[st.Sys]
				switch st.Op {
				case "prove":
					var proof *prover.Proof
					var err error
					var h, other *big.Int
					func() {
						defer func() {
							if p := recover(); p != nil {
								err = fmt.Errorf("PANIC: %v", p)
								fail("step %d Prove(%s, %s) panicked instead of returning an error: %v", si, st.Sys, st.Cls, p)
							}
						}()
						if s.Mode == "insertion" {
							p := randomValidInsertion(rng, int(s.Depth), int(s.Batch))
							q := randomValidInsertion(rng, int(s.Depth), int(s.Batch))
							other = new(big.Int).Set(&q.InputHash)
							mutateIns(rng, p, st.Cls, int(s.Depth))
							h = new(big.Int).Set(&p.InputHash)
							proof, err = ps.ProveInsertion(p)
						} else {
							var p *prover.DeletionParameters
							for {
								p = randomValidDeletion(rng, int(s.Depth), int(s.Batch))
								if p.DeletionIndices[0] < 1<<s.Depth {
									break
								}
							}
							q := randomValidDeletion(rng, int(s.Depth), int(s.Batch))
							other = new(big.Int).Set(&q.InputHash)
							mutateDel(rng, p, st.Cls, int(s.Depth))
							h = new(big.Int).Set(&p.InputHash)
							proof, err = ps.ProveDeletion(p)
						}
					}()
					if st.OK {
						if err != nil || proof == nil {
							fail("step %d Prove(%s, valid) returned an error: %v", si, st.Sys, err)
							tokens = append(tokens, issued{sys: st.Sys})
						} else {
							tokens = append(tokens, issued{sys: st.Sys, proof: proof, hash: new(big.Int).Mod(h, bn254R), other: other})
						}
					} else if err == nil || proof != nil {
						fail("step %d Prove(%s, %s) returned a proof (err=%v) for parameters that do not describe a valid batch of the system's dimensions", si, st.Sys, st.Cls, err)
					}
				case "verify":
					tk := tokens[st.Token-1]
					if tk.proof == nil {
						continue
					}
					var cand *big.Int
					k := func(n int64) *big.Int { return new(big.Int).Add(tk.hash, new(big.Int).Mul(big.NewInt(n), bn254R)) }
					switch st.Cand {
					case "own":
						cand = tk.hash
					case "own+r":
						cand = k(1)
					case "own+2r":
						cand = k(2)
					case "own+4r":
						cand = k(4)
					case "own-r":
						cand = k(-1)
					case "own-7r":
						cand = k(-7)
					case "own+r*2^70":
						cand = new(big.Int).Add(tk.hash, new(big.Int).Lsh(bn254R, 70))
					case "neg-own":
						cand = new(big.Int).Neg(tk.hash)
					case "neg-own-r":
						cand = new(big.Int).Neg(k(1))
					case "own+1":
						cand = new(big.Int).Add(tk.hash, big.NewInt(1))
					case "own-1":
						cand = new(big.Int).Sub(tk.hash, big.NewInt(1))
						if cand.Sign() < 0 {
							cand = new(big.Int).Sub(bn254R, big.NewInt(1))
						}
					case "other-batch":
						cand = tk.other
					case "random":
						cand = randField(rng)
					case "zero":
						cand = big.NewInt(0)
					default:
						die("unknown candidate %s", st.Cand)
					}
					var err error
					if s.Mode == "insertion" {
						err = ps.VerifyInsertion(*cand, tk.proof)
					} else {
						err = ps.VerifyDeletion(*cand, tk.proof)
					}
					if (err == nil) != st.Accept {
						fail("step %d Verify(system %s, proof #%d issued by %s, public input %s): accepted=%v, Prover.tla says %v", si, st.Sys, st.Token, tk.sys, st.Cand, err == nil, st.Accept)
					}
				}
			}
			emit(r)
		}
	}
}
