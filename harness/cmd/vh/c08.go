package main

import (
	"encoding/json"
	"fmt"
	"math/big"
	"math/rand"
	"os/exec"
	"strconv"
	"strings"
	"sync"

	"worldcoin/gnark-mbu/poseidon_tree"
	"worldcoin/gnark-mbu/prover"
)

// ---- leg A: spec -> code.  TLC chose the values and computed the hash.
type packCase struct {
	C struct {
		Mode  string   `json:"mode"`
		Start string   `json:"start"`
		Idxs  []string `json:"idxs"`
		Pre   string   `json:"pre"`
		Post  string   `json:"post"`
		Ids   []string `json:"ids"`
	} `json:"c"`
	Hash   string `json:"hash"`
	NBytes int    `json:"nbytes"`
}

func bigs(ss []string) []big.Int {
	out := make([]big.Int, len(ss))
	for i, s := range ss {
		out[i] = *bigOf(s)
	}
	return out
}

func helperHash(pc *packCase) (*big.Int, *big.Int) {
	// the reference is computed from a pristine copy BEFORE the helper runs: the helper must not be able to influence it
	if pc.C.Mode == "insertion" {
		s, _ := strconv.ParseUint(pc.C.Start, 10, 32)
		mk := func() *prover.InsertionParameters {
			return &prover.InsertionParameters{StartIndex: uint32(s), PreRoot: *bigOf(pc.C.Pre), PostRoot: *bigOf(pc.C.Post), IdComms: bigs(pc.C.Ids)}
		}
		ref := refInputHashInsertion(mk())
		p := mk()
		p.ComputeInputHashInsertion()
		return new(big.Int).Set(&p.InputHash), ref
	}
	mk := func() *prover.DeletionParameters {
		p := &prover.DeletionParameters{PreRoot: *bigOf(pc.C.Pre), PostRoot: *bigOf(pc.C.Post)}
		for _, s := range pc.C.Idxs {
			v, _ := strconv.ParseUint(s, 10, 32)
			p.DeletionIndices = append(p.DeletionIndices, uint32(v))
		}
		return p
	}
	ref := refInputHashDeletion(mk())
	p := mk()
	p.ComputeInputHashDeletion()
	return new(big.Int).Set(&p.InputHash), ref
}

// ---- leg B: code -> spec.  The code produces documents; TLC recomputes their hashes afterwards.
type genDoc struct {
	ID        string   `json:"id"`
	Mode      string   `json:"mode"`
	Depth     int      `json:"depth"`
	Batch     int      `json:"batch"`
	Start     string   `json:"start"`
	Idxs      []string `json:"idxs"`
	Pre       string   `json:"pre"`
	Post      string   `json:"post"`
	Ids       []string `json:"ids"`
	Helper    string   `json:"helper"`   // InputHash set by ComputeInputHash* (or printed by gen-test-params)
	Accepted  bool     `json:"accepted"` // the real circuit accepts the document with that hash
	Err       string   `json:"err,omitempty"`
	ShortPre  int      `json:"preBytes"`
	ShortPost int      `json:"postBytes"`
	Source    string   `json:"source"`
}

func strs(bs []big.Int) []string {
	out := make([]string, len(bs))
	for i := range bs {
		out[i] = bs[i].String()
	}
	return out
}

func docOfInsertion(id, src string, depth int, p *prover.InsertionParameters) genDoc {
	d := genDoc{ID: id, Source: src, Mode: "insertion", Depth: depth, Batch: len(p.IdComms), Start: strconv.FormatUint(uint64(p.StartIndex), 10),
		Pre: p.PreRoot.String(), Post: p.PostRoot.String(), Ids: strs(p.IdComms), Helper: p.InputHash.String(), Idxs: []string{},
		ShortPre: len(p.PreRoot.Bytes()), ShortPost: len(p.PostRoot.Bytes())}
	if err := witnessOfInsertion(p, depth).engineAccepts(); err != nil {
		d.Err = firstLine(err.Error())
	} else {
		d.Accepted = true
	}
	return d
}

func docOfDeletion(id, src string, depth int, p *prover.DeletionParameters) genDoc {
	d := genDoc{ID: id, Source: src, Mode: "deletion", Depth: depth, Batch: len(p.IdComms), Start: "0",
		Pre: p.PreRoot.String(), Post: p.PostRoot.String(), Ids: []string{}, Helper: p.InputHash.String(),
		ShortPre: len(p.PreRoot.Bytes()), ShortPost: len(p.PostRoot.Bytes())}
	for _, i := range p.DeletionIndices {
		d.Idxs = append(d.Idxs, strconv.FormatUint(uint64(i), 10))
	}
	if err := witnessOfDeletion(p, depth).engineAccepts(); err != nil {
		d.Err = firstLine(err.Error())
	} else {
		d.Accepted = true
	}
	return d
}

// genTestParamsLib reproduces the recipe of `gnark-mbu gen-test-params` through the library
func genTestParamsIns(depth, batch int) *prover.InsertionParameters {
	params := prover.InsertionParameters{}
	tree := poseidon_tree.NewTree(depth)
	params.StartIndex = 0
	params.PreRoot = tree.Root()
	params.IdComms = make([]big.Int, batch)
	params.MerkleProofs = make([][]big.Int, batch)
	for i := 0; i < batch; i++ {
		params.IdComms[i] = *new(big.Int).SetUint64(uint64(i + 1))
		params.MerkleProofs[i] = tree.Update(i, params.IdComms[i])
	}
	params.PostRoot = tree.Root()
	params.ComputeInputHashInsertion()
	return &params
}

type c08GenCases struct {
	Dims    [][]interface{} `json:"dims"`    // [mode, depth, batch] for the gen-test-params sweep
	CLI     string          `json:"cli"`     // path of the gnark-mbu binary (optional)
	ShortN  int             `json:"shortN"`  // number of valid batches with a short root to search for, per mode
	RandomN int             `json:"randomN"` // further random valid batches per mode
}

func init() {
	commands["c08"] = func(args []string) {
		var cs struct {
			Cases []packCase `json:"cases"`
		}
		loadCases(args, &cs)
		for i := range cs.Cases {
			pc := &cs.Cases[i]
			id := fmt.Sprintf("%s/case%d", pc.C.Mode, i)
			h, ref := helperHash(pc)
			spec := bigOf(pc.Hash)
			if new(big.Int).Mod(ref, bn254R).Cmp(spec) != 0 {
				emit(Result{ID: id, OK: false, Kind: "spec-vs-reference", Expected: spec.String(), Observed: ref.String()})
				continue
			}
			r := Result{ID: id, OK: true, Kind: "input-hash", Expected: spec.String(), Observed: h.String()}
			if new(big.Int).Mod(h, bn254R).Cmp(spec) != 0 {
				r.OK = false
				r.Detail = fmt.Sprintf("ComputeInputHash%s returns %s, the on-chain packing (%d bytes) hashes to %s (mod r); byte lengths pre=%d post=%d",
					strings.Title(pc.C.Mode), hexOf(h), pc.NBytes, hexOf(spec), len(bigOf(pc.C.Pre).Bytes()), len(bigOf(pc.C.Post).Bytes()))
				r.Case = map[string]interface{}{"cases": []packCase{*pc}}
			}
			emit(r)
		}
		// sessions: the same cases again in ONE process, in shuffled order, some preceded by a call whose values are OUT of range
		// (negative, 2^256, 2^300: no expectation on those), and once more from eight goroutines at the same time.  The helper is
		// a function of its arguments: nothing an earlier or a concurrent call did may change the hash of an in-range set.
		rng := rand.New(rand.NewSource(seed() + 808))
		poison := []*big.Int{big.NewInt(-1), new(big.Int).Lsh(big.NewInt(1), 256), new(big.Int).Lsh(big.NewInt(1), 300), new(big.Int).Neg(new(big.Int).Lsh(big.NewInt(1), 255))}
		poisonCall := func() {
			defer func() { recover() }()
			v := poison[rng.Intn(len(poison))]
			switch rng.Intn(4) {
			case 0:
				(&prover.InsertionParameters{PreRoot: *v, PostRoot: *big.NewInt(5), IdComms: bigs([]string{"1", "2"})}).ComputeInputHashInsertion()
			case 1:
				(&prover.InsertionParameters{PreRoot: *big.NewInt(5), PostRoot: *big.NewInt(6), IdComms: []big.Int{*big.NewInt(9), *v}}).ComputeInputHashInsertion()
			case 2:
				(&prover.DeletionParameters{PreRoot: *big.NewInt(5), PostRoot: *v, DeletionIndices: []uint32{1, 2}}).ComputeInputHashDeletion()
			default:
				(&prover.DeletionParameters{PreRoot: *v, PostRoot: *v, DeletionIndices: []uint32{7}}).ComputeInputHashDeletion()
			}
		}
		sessionCheck := func(kind string, i int, pc *packCase, h *big.Int) {
			spec := bigOf(pc.Hash)
			r := Result{ID: fmt.Sprintf("%s/%s/case%d", kind, pc.C.Mode, i), OK: true, Kind: kind, Expected: spec.String(), Observed: h.String()}
			if new(big.Int).Mod(h, bn254R).Cmp(spec) != 0 {
				r.OK = false
				r.Detail = fmt.Sprintf("%s: ComputeInputHash%s returns %s for an in-range parameter set whose on-chain packing hashes to %s (mod r); the same set hashed correctly in isolation = %v",
					kind, strings.Title(pc.C.Mode), hexOf(h), hexOf(spec), func() bool { x, _ := helperHash(pc); return new(big.Int).Mod(x, bn254R).Cmp(spec) == 0 }())
				r.Case = map[string]interface{}{"cases": cs.Cases}
			}
			emit(r)
		}
		for round := 0; round < 2; round++ {
			for _, i := range rng.Perm(len(cs.Cases)) {
				if rng.Intn(3) == 0 {
					poisonCall()
				}
				h, _ := helperHash(&cs.Cases[i])
				sessionCheck("input-hash-after-out-of-range-call", i, &cs.Cases[i], h)
			}
		}
		type hres struct {
			i int
			h *big.Int
		}
		out := make(chan hres, 8*len(cs.Cases))
		var wg sync.WaitGroup
		for g := 0; g < 8; g++ {
			wg.Add(1)
			perm := rng.Perm(len(cs.Cases))
			go func() {
				defer wg.Done()
				for _, i := range perm {
					h, _ := helperHash(&cs.Cases[i])
					out <- hres{i, h}
				}
			}()
		}
		wg.Wait()
		close(out)
		for x := range out {
			sessionCheck("input-hash-concurrent", x.i, &cs.Cases[x.i], x.h)
		}
	}
	commands["c08-gen"] = func(args []string) {
		var cs c08GenCases
		loadCases(args, &cs)
		rng := rand.New(rand.NewSource(seed()))
		for _, d := range cs.Dims {
			mode := d[0].(string)
			depth, batch := int(d[1].(float64)), int(d[2].(float64))
			id := fmt.Sprintf("gen-test-params/%s/%d/%d", mode, depth, batch)
			var doc genDoc
			if cs.CLI != "" {
				out, err := exec.Command(cs.CLI, "gen-test-params", "--mode", mode, "--tree-depth", strconv.Itoa(depth), "--batch-size", strconv.Itoa(batch)).Output()
				if err != nil {
					doc = genDoc{ID: id, Source: "cli", Mode: mode, Depth: depth, Batch: batch, Err: "gen-test-params failed: " + err.Error()}
				} else if mode == "insertion" {
					var p prover.InsertionParameters
					if e := json.Unmarshal(out, &p); e != nil {
						doc = genDoc{ID: id, Source: "cli", Mode: mode, Depth: depth, Batch: batch, Err: "output is not a parameter document: " + e.Error()}
					} else {
						doc = docOfInsertion(id, "cli", depth, &p)
					}
				} else {
					var p prover.DeletionParameters
					if e := json.Unmarshal(out, &p); e != nil {
						doc = genDoc{ID: id, Source: "cli", Mode: mode, Depth: depth, Batch: batch, Err: "output is not a parameter document: " + e.Error()}
					} else {
						doc = docOfDeletion(id, "cli", depth, &p)
					}
				}
			} else if mode == "insertion" {
				doc = docOfInsertion(id, "lib", depth, genTestParamsIns(depth, batch))
			} else {
				continue
			}
			b, _ := json.Marshal(doc)
			fmt.Println(string(b))
		}
		// valid batches whose roots have leading zero bytes (about 1 in 128 batches), found by search
		for _, mode := range []string{"insertion", "deletion"} {
			found, tries, randomLeft := 0, 0, cs.RandomN
			for (found < cs.ShortN || randomLeft > 0) && tries < 200000 {
				tries++
				depth, batch := 1+rng.Intn(4), 1+rng.Intn(3)
				if mode == "insertion" && batch > 1<<depth {
					continue // an insertion batch cannot be larger than the tree
				}
				if mode == "insertion" {
					p := randomValidInsertion(rng, depth, batch)
					short := len(p.PreRoot.Bytes()) < 32 || len(p.PostRoot.Bytes()) < 32
					if !(short && found < cs.ShortN) && !(randomLeft > 0 && !short) {
						continue
					}
					p.InputHash = big.Int{}
					p.ComputeInputHashInsertion()
					if short {
						found++
					} else {
						randomLeft--
					}
					b, _ := json.Marshal(docOfInsertion(fmt.Sprintf("valid/%s/try%d", mode, tries), "random", depth, p))
					fmt.Println(string(b))
				} else {
					p := randomValidDeletion(rng, depth, batch)
					short := len(p.PreRoot.Bytes()) < 32 || len(p.PostRoot.Bytes()) < 32
					if !(short && found < cs.ShortN) && !(randomLeft > 0 && !short) {
						continue
					}
					p.InputHash = big.Int{}
					p.ComputeInputHashDeletion()
					if short {
						found++
					} else {
						randomLeft--
					}
					b, _ := json.Marshal(docOfDeletion(fmt.Sprintf("valid/%s/try%d", mode, tries), "random", depth, p))
					fmt.Println(string(b))
				}
			}
		}
	}
}
