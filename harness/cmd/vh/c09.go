package main

// C09: request classes of ProveApi.tla concretised into HTTP requests against a real server.Run
// instance (one per mode), answers compared with the class's allowed set.

import (
	"bytes"
	"encoding/json"
	"fmt"
	"io"
	"math/big"
	"math/rand"
	"net/http"
	"strings"
	"time"

	"worldcoin/gnark-mbu/prover"
	"worldcoin/gnark-mbu/server"
)

type apiStep struct {
	Class  string `json:"class"`
	Method string `json:"method"`
	Expect string `json:"expect"`
}
type c09Cases struct {
	Mode      string      `json:"mode"`
	Depth     uint32      `json:"depth"`
	Batch     uint32      `json:"batch"`
	Sequences [][]apiStep `json:"sequences"`
	Canary    string      `json:"canary"`
}

// a parameter document with raw JSON values, so that arbitrary literals can be injected
type rawDoc struct {
	order  []string
	fields map[string]json.RawMessage
	ids    []json.RawMessage
	proofs [][]json.RawMessage
	idxs   []json.RawMessage
	mode   string
	hash   *big.Int
}

func q(v *big.Int) json.RawMessage { return json.RawMessage(`"0x` + v.Text(16) + `"`) }

func (w *srvWorld) rawValid() *rawDoc {
	d := &rawDoc{fields: map[string]json.RawMessage{}, mode: w.mode}
	if w.mode == "insertion" {
		p := randomValidInsertion(w.rng, int(w.depth), int(w.batch))
		d.hash = new(big.Int).Set(&p.InputHash)
		d.order = []string{"inputHash", "startIndex", "preRoot", "postRoot", "identityCommitments", "merkleProofs"}
		d.fields["inputHash"], d.fields["preRoot"], d.fields["postRoot"] = q(&p.InputHash), q(&p.PreRoot), q(&p.PostRoot)
		d.fields["startIndex"] = json.RawMessage(fmt.Sprint(p.StartIndex))
		for i := range p.IdComms {
			d.ids = append(d.ids, q(&p.IdComms[i]))
			var row []json.RawMessage
			for j := range p.MerkleProofs[i] {
				row = append(row, q(&p.MerkleProofs[i][j]))
			}
			d.proofs = append(d.proofs, row)
		}
		return d
	}
	// deletion: make sure no slot is padding, so that "wrong value" classes are unsatisfiable
	var p *prover.DeletionParameters
	for {
		p = randomValidDeletion(w.rng, int(w.depth), int(w.batch))
		pad := false
		for _, i := range p.DeletionIndices {
			if i >= 1<<w.depth {
				pad = true
			}
		}
		if !pad {
			break
		}
	}
	d.hash = new(big.Int).Set(&p.InputHash)
	d.order = []string{"inputHash", "deletionIndices", "preRoot", "postRoot", "identityCommitments", "merkleProofs"}
	d.fields["inputHash"], d.fields["preRoot"], d.fields["postRoot"] = q(&p.InputHash), q(&p.PreRoot), q(&p.PostRoot)
	for i := range p.IdComms {
		d.idxs = append(d.idxs, json.RawMessage(fmt.Sprint(p.DeletionIndices[i])))
		d.ids = append(d.ids, q(&p.IdComms[i]))
		var row []json.RawMessage
		for j := range p.MerkleProofs[i] {
			row = append(row, q(&p.MerkleProofs[i][j]))
		}
		d.proofs = append(d.proofs, row)
	}
	return d
}

func joinRaw(xs []json.RawMessage) string {
	ss := make([]string, len(xs))
	for i, x := range xs {
		ss[i] = string(x)
	}
	return "[" + strings.Join(ss, ",") + "]"
}

func (d *rawDoc) render(skip map[string]bool, extra string) []byte {
	var parts []string
	for _, k := range d.order {
		if skip[k] {
			continue
		}
		var v string
		switch k {
		case "identityCommitments":
			if r, ok := d.fields[k]; ok {
				v = string(r)
			} else {
				v = joinRaw(d.ids)
			}
		case "deletionIndices":
			if r, ok := d.fields[k]; ok {
				v = string(r)
			} else {
				v = joinRaw(d.idxs)
			}
		case "merkleProofs":
			if r, ok := d.fields[k]; ok {
				v = string(r)
			} else {
				rows := make([]string, len(d.proofs))
				for i, row := range d.proofs {
					rows[i] = joinRaw(row)
				}
				v = "[" + strings.Join(rows, ",") + "]"
			}
		default:
			v = string(d.fields[k])
		}
		parts = append(parts, fmt.Sprintf("%q:%s", k, v))
	}
	if extra != "" {
		parts = append(parts, extra)
	}
	return []byte("{" + strings.Join(parts, ",") + "}")
}

// slot returns a pointer to the raw value of a named numeric field
func (d *rawDoc) slot(f string) *json.RawMessage {
	switch f {
	case "hash":
		v := d.fields["inputHash"]
		return &v
	}
	return nil
}

func (d *rawDoc) get(f string) json.RawMessage {
	switch f {
	case "hash":
		return d.fields["inputHash"]
	case "pre":
		return d.fields["preRoot"]
	case "post":
		return d.fields["postRoot"]
	case "id0":
		return d.ids[0]
	case "idlast":
		return d.ids[len(d.ids)-1]
	case "proof00":
		return d.proofs[0][0]
	case "prooflast":
		r := d.proofs[len(d.proofs)-1]
		return r[len(r)-1]
	}
	die("unknown field %s", f)
	return nil
}
func (d *rawDoc) set(f string, v json.RawMessage) {
	switch f {
	case "hash":
		d.fields["inputHash"] = v
	case "pre":
		d.fields["preRoot"] = v
	case "post":
		d.fields["postRoot"] = v
	case "id0":
		d.ids[0] = v
	case "idlast":
		d.ids[len(d.ids)-1] = v
	case "proof00":
		d.proofs[0][0] = v
	case "prooflast":
		r := d.proofs[len(d.proofs)-1]
		r[len(r)-1] = v
	default:
		die("unknown field %s", f)
	}
}

func rawVal(r json.RawMessage) *big.Int { return bigOf(strings.Trim(string(r), `"`)) }

// body builds the request body of a class; returns (method, body, hash to verify a 200 against)
// hiddenLen hides the body's length from net/http, which then frames the request with Transfer-Encoding: chunked
type hiddenLen struct{ io.Reader }

func (w *srvWorld) classBody(class string) (string, []byte, *big.Int) {
	// "chunked:<class>": the same request framed with Transfer-Encoding: chunked instead of Content-Length
	w.chunked = strings.HasPrefix(class, "chunked:")
	class = strings.TrimPrefix(class, "chunked:")
	d := w.rawValid()
	parts := strings.Split(class, ":")
	kind := parts[0]
	arg := func(i int) string {
		if i < len(parts) {
			return parts[i]
		}
		return ""
	}
	switch kind {
	case "valid":
		return "POST", d.render(nil, ""), d.hash
	case "method":
		if arg(2) == "valid" {
			return arg(1), d.render(nil, ""), d.hash
		}
		return arg(1), nil, nil
	case "extra-field":
		return "POST", d.render(nil, `"somethingElse":{"a":[1,2,3]}`), d.hash
	case "bytes":
		full := d.render(nil, "")
		switch arg(1) {
		case "garbage":
			b := make([]byte, 200)
			w.rng.Read(b)
			return "POST", b, nil
		case "empty":
			return "POST", []byte{}, nil
		case "truncated":
			k := map[string]int{"1": 1, "half": len(full) / 2, "last": len(full) - 1}[arg(2)]
			return "POST", full[:k], nil
		case "trailing":
			return "POST", append(full, []byte(" x")...), nil
		case "huge":
			return "POST", bytes.Repeat([]byte("{\"a\":"), 3<<20), nil
		case "whitespace-padded":
			return "POST", append(append(bytes.Repeat([]byte(" \n"), 200000), full...), bytes.Repeat([]byte(" "), 1000)...), d.hash
		}
	case "json":
		return "POST", []byte(map[string]string{"null": "null", "array": "[]", "number": "5", "string": `"0x1"`, "true": "true", "emptyobj": "{}", "nested": `{"inputHash":{"a":1}}`}[arg(1)]), nil
	case "numbad": // a literal that is not a number, in a numeric position
		d.set(arg(1), json.RawMessage(jsonStr(strings.Join(parts[2:], ":"))))
		return "POST", d.render(nil, ""), d.hash
	case "numfmt": // the TRUE value in another notation
		v := rawVal(d.get(arg(1)))
		var lit string
		switch arg(2) {
		case "decimal":
			lit = v.String()
		case "HEXUPPER":
			lit = "0x" + strings.ToUpper(v.Text(16))
		case "0Xprefix":
			lit = "0X" + v.Text(16)
		case "hex-leading-zeros":
			lit = "0x0000" + v.Text(16)
		case "octal":
			lit = "0o" + v.Text(8)
		case "binary":
			lit = "0b" + v.Text(2)
		case "underscore":
			h := v.Text(16)
			lit = "0x" + h[:1] + "_" + h[1:]
			if len(h) < 2 {
				lit = "0x_" + h
			}
		case "plus":
			lit = "+0x" + v.Text(16)
		}
		d.set(arg(1), json.RawMessage(jsonStr(lit)))
		return "POST", d.render(nil, ""), d.hash
	case "type": // wrong JSON type in a numeric position
		d.set(arg(1), json.RawMessage(map[string]string{"number": "5", "null": "null", "array": `["0x1"]`, "object": `{"v":"0x1"}`, "bool": "true"}[arg(2)]))
		return "POST", d.render(nil, ""), d.hash
	case "val":
		v := rawVal(d.get(arg(1)))
		switch arg(2) {
		case "plus1":
			v = new(big.Int).Mod(new(big.Int).Add(v, big.NewInt(1)), bn254R)
		case "plusr":
			v = new(big.Int).Add(v, bn254R)
		case "huge":
			v = new(big.Int).Add(v, new(big.Int).Lsh(big.NewInt(1), 300))
		case "negative":
			d.set(arg(1), json.RawMessage(jsonStr("-0x"+v.Text(16))))
			return "POST", d.render(nil, ""), d.hash
		}
		d.set(arg(1), q(v))
		return "POST", d.render(nil, ""), d.hash
	case "idx":
		lit := map[string]string{"string": `"0"`, "negative": "-1", "2p32": "4294967296", "float": "0.5", "exp": "1e0", "null": "null", "wrong": ""}[arg(1)]
		if arg(1) == "wrong" {
			// another in-range index: the batch no longer matches its paths
			if w.mode == "insertion" {
				cur := rawVal(d.fields["startIndex"]).Int64()
				d.fields["startIndex"] = json.RawMessage(fmt.Sprint((cur + 1) % int64(1<<w.depth)))
			} else {
				cur := rawVal(d.idxs[0]).Int64()
				d.idxs[0] = json.RawMessage(fmt.Sprint((cur + 1) % int64(1<<w.depth)))
			}
		} else if w.mode == "insertion" {
			d.fields["startIndex"] = json.RawMessage(lit)
		} else {
			d.idxs[0] = json.RawMessage(lit)
		}
		return "POST", d.render(nil, ""), d.hash
	case "shape":
		one := json.RawMessage(`"0x1"`)
		switch arg(1) {
		case "ids":
			d.ids = resize(d.ids, arg(2), one)
		case "idxs":
			d.idxs = resize(d.idxs, arg(2), json.RawMessage("0"))
		case "proofs":
			switch arg(2) {
			case "+1":
				d.proofs = append(d.proofs, d.proofs[0])
			case "-1":
				d.proofs = d.proofs[:len(d.proofs)-1]
			case "empty":
				d.proofs = nil
			}
		case "row0":
			d.proofs[0] = resize(d.proofs[0], arg(2), one)
		case "rowlast":
			d.proofs[len(d.proofs)-1] = resize(d.proofs[len(d.proofs)-1], arg(2), one)
		case "long":
			for i := 0; i < 5000; i++ {
				d.ids = append(d.ids, one)
			}
		}
		return "POST", d.render(nil, ""), d.hash
	case "missing":
		name := map[string]string{"hash": "inputHash", "pre": "preRoot", "post": "postRoot", "ids": "identityCommitments", "proofs": "merkleProofs", "idxs": "deletionIndices", "start": "startIndex"}[arg(1)]
		return "POST", d.render(map[string]bool{name: true}, ""), d.hash
	case "nullarr":
		name := map[string]string{"ids": "identityCommitments", "proofs": "merkleProofs", "idxs": "deletionIndices"}[arg(1)]
		d.fields[name] = json.RawMessage("null")
		return "POST", d.render(nil, ""), d.hash
	case "othermode":
		o := &srvWorld{mode: map[string]string{"insertion": "deletion", "deletion": "insertion"}[w.mode], depth: w.depth, batch: w.batch, rng: w.rng}
		od := o.rawValid()
		return "POST", od.render(nil, ""), od.hash
	}
	die("unknown class %s", class)
	return "", nil, nil
}

func resize(xs []json.RawMessage, how string, fill json.RawMessage) []json.RawMessage {
	switch how {
	case "+1":
		return append(append([]json.RawMessage(nil), xs...), fill)
	case "-1":
		return xs[:len(xs)-1]
	case "empty":
		return []json.RawMessage{}
	}
	return xs
}

type apiAnswer struct {
	Status  int    `json:"status"`
	Code    string `json:"code"`
	ProofOK bool   `json:"proof_ok"`
	Err     string `json:"err,omitempty"`
	Detail  string `json:"detail,omitempty"`
}

func (w *srvWorld) send(addr, method string, body []byte, hash *big.Int) apiAnswer {
	cl := &http.Client{Transport: &http.Transport{DisableKeepAlives: true}, Timeout: 90 * time.Second}
	var rd io.Reader = bytes.NewReader(body)
	if w.chunked && body != nil {
		rd = hiddenLen{bytes.NewReader(body)}
	}
	rq, err := http.NewRequest(method, "http://"+addr+"/prove", rd)
	if err != nil {
		return apiAnswer{Err: err.Error()}
	}
	if w.chunked && body != nil && rq.ContentLength != 0 {
		die("request is not going to be chunked")
	}
	rs, err := cl.Do(rq)
	if err != nil {
		return apiAnswer{Err: err.Error()}
	}
	defer rs.Body.Close()
	b, rerr := io.ReadAll(rs.Body)
	a := apiAnswer{Status: rs.StatusCode, Code: "none"}
	if rerr != nil {
		a.Err = rerr.Error()
		return a
	}
	switch {
	case rs.StatusCode == 200:
		a.Code = "proof"
		var pr prover.Proof
		if err := json.Unmarshal(b, &pr); err != nil {
			a.Detail = "200 body is not a proof: " + firstLine(err.Error())
			return a
		}
		verify := w.ps.VerifyDeletion
		if w.mode == "insertion" {
			verify = w.ps.VerifyInsertion
		}
		if hash == nil {
			a.Detail = "200 for a request without a batch"
		} else if err := verify(*hash, &pr); err != nil {
			a.Detail = "proof does not verify for the request's input hash: " + firstLine(err.Error())
		} else {
			a.ProofOK = true
		}
	case rs.StatusCode == 405:
		if len(b) != 0 && method != "HEAD" {
			a.Detail = "405 with a body"
		}
	default:
		var e struct {
			Code    string `json:"code"`
			Message string `json:"message"`
		}
		if err := json.Unmarshal(b, &e); err != nil || e.Code == "" {
			a.Detail = "error body is not {code, message}: " + string(b)
		} else {
			a.Code = e.Code
		}
	}
	return a
}

func timedOut(e string) bool {
	return strings.Contains(e, "Timeout") || strings.Contains(e, "deadline exceeded")
}

func allowed(expect string, a apiAnswer) bool {
	if a.Err != "" || a.Detail != "" {
		return false
	}
	is := func(s int, c string) bool { return a.Status == s && a.Code == c && (s != 200 || a.ProofOK) }
	switch expect {
	case "405":
		return is(405, "none")
	case "mb":
		return is(400, "malformed_body")
	case "pe":
		return is(400, "proving_error")
	case "ok":
		return is(200, "proof")
	case "e400":
		return is(400, "malformed_body") || is(400, "proving_error")
	case "eany":
		return is(400, "malformed_body") || is(400, "proving_error") || is(200, "proof")
	}
	return false
}

func init() {
	commands["c09"] = func(args []string) {
		var cs c09Cases
		loadCases(args, &cs)
		w := newWorld(cs.Mode, cs.Depth, cs.Batch)
		w.rng = rand.New(rand.NewSource(seed()))
		cfg := server.Config{ProverAddress: freeAddr(), MetricsAddress: freeAddr(), Mode: w.mode}
		job := server.Run(&cfg, w.ps)
		defer func() { job.RequestStop(); job.AwaitStop() }()
		for i := 0; i < 2000; i++ {
			if a := w.send(cfg.ProverAddress, "GET", nil, nil); a.Err == "" {
				break
			}
			time.Sleep(5 * time.Millisecond)
		}
		for si, seq := range cs.Sequences {
			r := Result{ID: fmt.Sprintf("%s/sequence%d", cs.Mode, si), OK: true, Kind: "api-sequence"}
			var obs []interface{}
			for qi, st := range seq {
				method, body, hash := w.classBody(st.Class)
				if st.Method != "" && st.Method != method {
					die("class %s: method %s vs %s", st.Class, st.Method, method)
				}
				a := w.send(cfg.ProverAddress, method, body, hash)
				obs = append(obs, map[string]interface{}{"class": st.Class, "answer": a})
				if !allowed(st.Expect, a) && r.OK {
					r.OK = false
					r.Detail = fmt.Sprintf("request %d of the sequence, class %s (%s): answer %d %s proof_ok=%v err=%q %s — ProveApi.tla allows %q", qi, st.Class, method, a.Status, a.Code, a.ProofOK, a.Err, a.Detail, st.Expect)
					bs := string(body)
					if len(bs) > 1500 {
						bs = bs[:1500] + "…"
					}
					// the whole history of this server: what it answers may depend on the earlier sequences
					r.Case = map[string]interface{}{"mode": cs.Mode, "depth": cs.Depth, "batch": cs.Batch, "sequences": cs.Sequences[:si+1], "canary": cs.Canary, "body_of_failing_request": bs}
					if a.Err != "" && a.Status == 0 && !timedOut(a.Err) {
						r.Detail = "connection closed WITHOUT A RESPONSE: " + r.Detail
					}
					if a.Err != "" && a.Status == 0 && timedOut(a.Err) {
						// no response at all within the client's 90 s: every later request would wait as long; report and stop
						r.Detail = "NO RESPONSE within 90 s (a (2,2) proof takes under a second): " + r.Detail
						r.Observed = obs
						emit(r)
						return
					}
				}
			}
			// the server answers subsequent requests normally
			method, body, hash := w.classBody(cs.Canary)
			a := w.send(cfg.ProverAddress, method, body, hash)
			if !allowed("ok", a) && r.OK {
				r.OK = false
				r.Detail = fmt.Sprintf("after the sequence the server no longer answers a valid request with 200: %d %s err=%q %s", a.Status, a.Code, a.Err, a.Detail)
				r.Case = map[string]interface{}{"mode": cs.Mode, "depth": cs.Depth, "batch": cs.Batch, "sequences": cs.Sequences[:si+1], "canary": cs.Canary}
				if a.Err != "" && a.Status == 0 && timedOut(a.Err) {
					r.Observed = obs
					emit(r)
					return
				}
			}
			r.Observed = obs
			emit(r)
		}
	}
}
