package main

import (
	"bytes"
	"encoding/json"
	"fmt"
	"math/big"
	"math/rand"
	"os"
	"reflect"
	"sync"

	"github.com/consensys/gnark-crypto/ecc"
	bn254 "github.com/consensys/gnark-crypto/ecc/bn254"
	"github.com/consensys/gnark-crypto/ecc/bn254/fp"
	"github.com/consensys/gnark/backend/groth16"
	"worldcoin/gnark-mbu/prover"
)

type c10Vector struct {
	Lens  []int    `json:"lens"`
	Tz    []int    `json:"tz"` // trailing zero bytes per coordinate (at most one non-zero entry)
	Names []string `json:"names"`
	Paths []string `json:"paths"`
}
type c10Cases struct {
	Vectors []c10Vector `json:"vectors"`
	Real    int         `json:"real"` // number of real proofs to generate and round-trip
	Mode    string      `json:"mode"`
	Depth   uint32      `json:"depth"`
	Batch   uint32      `json:"batch"`
}

func fpLen(e *fp.Element) int { b := e.BigInt(new(big.Int)); return (b.BitLen() + 7) / 8 }

// coordinates of a gnark proof read from the struct by reflection (the concrete type lives in an
// internal package), in the order A.x A.y B.x1 B.x0 B.y1 B.y0 C.x C.y
func proofCoords(p groth16.Proof) ([]*big.Int, error) {
	v := reflect.ValueOf(p)
	if v.Kind() == reflect.Ptr {
		v = v.Elem()
	}
	ar, ok1 := v.FieldByName("Ar").Interface().(bn254.G1Affine)
	krs, ok2 := v.FieldByName("Krs").Interface().(bn254.G1Affine)
	bs, ok3 := v.FieldByName("Bs").Interface().(bn254.G2Affine)
	if !ok1 || !ok2 || !ok3 {
		return nil, fmt.Errorf("unexpected proof type %T", p)
	}
	el := []*fp.Element{&ar.X, &ar.Y, &bs.X.A1, &bs.X.A0, &bs.Y.A1, &bs.Y.A0, &krs.X, &krs.Y}
	out := make([]*big.Int, 8)
	for i, e := range el {
		out[i] = e.BigInt(new(big.Int))
	}
	return out, nil
}

func proofFromPoints(ar bn254.G1Affine, bs bn254.G2Affine, krs bn254.G1Affine) (groth16.Proof, error) {
	var buf bytes.Buffer
	a, b, c := ar.RawBytes(), bs.RawBytes(), krs.RawBytes()
	buf.Write(a[:])
	buf.Write(b[:])
	buf.Write(c[:])
	p := groth16.NewProof(ecc.BN254)
	_, err := p.ReadFrom(bytes.NewReader(buf.Bytes()))
	return p, err
}

// pools of curve points by short/full pattern of their coordinates
type pointPools struct {
	g1 map[string]bn254.G1Affine // pattern over (x,y): "LL","SL","LS","SS"
	g2 map[string]bn254.G2Affine // pattern over (x1,x0,y1,y0)
}

// pattern letter per coordinate: S = shorter than 32 bytes, L = full width, T = full width and >= r (top of the base field)
func pat(ls ...int) string {
	s := ""
	for _, l := range ls {
		switch {
		case l < 32:
			s += "S"
		case l == 33:
			s += "T"
		default:
			s += "L"
		}
	}
	return s
}

func fpClass(e *fp.Element) int {
	b := e.BigInt(new(big.Int))
	if b.Cmp(bn254R) >= 0 {
		return 33
	}
	return (b.BitLen() + 7) / 8
}

func buildPools(rng *rand.Rand) *pointPools {
	pp := &pointPools{g1: map[string]bn254.G1Affine{}, g2: map[string]bn254.G2Affine{}}
	_, _, g1, g2 := bn254.Generators()
	pp.g1["SS"] = g1 // (1, 2)
	// G1 points whose x lies in [r, p): x = p-1, p-2, ... until x^3 + 3 is a square (G1 has cofactor 1)
	var x, rhs, y, three fp.Element
	three.SetUint64(3)
	x.SetBigInt(new(big.Int).Sub(fp.Modulus(), big.NewInt(1)))
	var one fp.Element
	one.SetOne()
	for i := 0; i < 64; i++ {
		rhs.Square(&x).Mul(&rhs, &x).Add(&rhs, &three)
		if y.Sqrt(&rhs) != nil {
			p := bn254.G1Affine{X: x, Y: y}
			if p.IsOnCurve() {
				key := pat(fpClass(&p.X), fpClass(&p.Y))
				if _, ok := pp.g1[key]; !ok {
					pp.g1[key] = p
				}
				var q bn254.G1Affine
				q.Neg(&p)
				key = pat(fpClass(&q.X), fpClass(&q.Y))
				if _, ok := pp.g1[key]; !ok {
					pp.g1[key] = q
				}
			}
		}
		x.Sub(&x, &one)
	}
	for i := 0; i < 200000 && (len(pp.g1) < 5 || len(pp.g2) < 5); i++ {
		k := new(big.Int).Rand(rng, bn254R)
		if len(pp.g1) < 5 {
			var p bn254.G1Affine
			p.ScalarMultiplication(&g1, k)
			key := pat(fpClass(&p.X), fpClass(&p.Y))
			if _, ok := pp.g1[key]; !ok {
				pp.g1[key] = p
			}
		}
		if len(pp.g2) < 5 {
			var q bn254.G2Affine
			q.ScalarMultiplication(&g2, k)
			key := pat(fpLen(&q.X.A1), fpLen(&q.X.A0), fpLen(&q.Y.A1), fpLen(&q.Y.A0))
			if _, ok := pp.g2[key]; !ok && (key == "LLLL" || key == "SLLL" || key == "LSLL" || key == "LLSL" || key == "LLLS") {
				pp.g2[key] = q
			}
		}
	}
	return pp
}

// trailingZeroBytes of a full-width coordinate
func tzOf(e *fp.Element) int {
	b := e.Bytes()
	n := 0
	for i := len(b) - 1; i > 0 && b[i] == 0; i-- {
		n++
	}
	return n
}

// zPools: curve points one of whose coordinates is full width and divisible by 256^t.  Keys "g1/<coord>/<t>", "g2/<coord>/<t>"
// (coord = index within the group: G1 x=0 y=1; G2 X.A1=0 X.A0=1 Y.A1=2 Y.A0=3).
type zPools struct {
	g1 map[string]bn254.G1Affine
	g2 map[string]bn254.G2Affine
}

func buildZPools(rng *rand.Rand, maxT int) *zPools {
	zp := &zPools{g1: map[string]bn254.G1Affine{}, g2: map[string]bn254.G2Affine{}}
	_, _, g1, g2 := bn254.Generators()
	var three fp.Element
	three.SetUint64(3)
	// G1 x: constructive, x = k * 256^t with x^3 + 3 a square
	for t := 1; t <= 3; t++ {
		step := new(big.Int).Lsh(big.NewInt(1), uint(8*t))
		k := new(big.Int).Rand(rng, new(big.Int).Rsh(fp.Modulus(), uint(8*t+1)))
		k.Add(k, new(big.Int).Rsh(fp.Modulus(), uint(8*t+1))) // upper half: full width
		for i := 0; i < 4000; i++ {
			var x, rhs, y fp.Element
			x.SetBigInt(new(big.Int).Mul(k, step))
			rhs.Square(&x).Mul(&rhs, &x).Add(&rhs, &three)
			if y.Sqrt(&rhs) != nil {
				p := bn254.G1Affine{X: x, Y: y}
				if p.IsOnCurve() && fpClass(&p.X) == 32 && tzOf(&p.X) >= t {
					zp.g1[fmt.Sprintf("g1/0/%d", t)] = p
					break
				}
			}
			k.Add(k, big.NewInt(1))
		}
	}
	// everything else: random search (probability 256^-t per try)
	tries := 4000
	if maxT >= 2 {
		tries = 600000
	}
	for i := 0; i < tries; i++ {
		k := new(big.Int).Rand(rng, bn254R)
		var p bn254.G1Affine
		p.ScalarMultiplication(&g1, k)
		if t := tzOf(&p.Y); t >= 1 && fpClass(&p.Y) >= 32 {
			for u := 1; u <= t && u <= 3; u++ {
				if _, ok := zp.g1[fmt.Sprintf("g1/1/%d", u)]; !ok {
					zp.g1[fmt.Sprintf("g1/1/%d", u)] = p
				}
			}
		}
		if i < tries/4 || maxT >= 2 {
			var q bn254.G2Affine
			q.ScalarMultiplication(&g2, k)
			for ci, e := range []*fp.Element{&q.X.A1, &q.X.A0, &q.Y.A1, &q.Y.A0} {
				if t := tzOf(e); t >= 1 && fpLen(e) == 32 {
					for u := 1; u <= t && u <= 3; u++ {
						if _, ok := zp.g2[fmt.Sprintf("g2/%d/%d", ci, u)]; !ok {
							zp.g2[fmt.Sprintf("g2/%d/%d", ci, u)] = q
						}
					}
				}
			}
		}
		need := 1 + 4
		if maxT >= 2 {
			need = 2 + 8
		}
		have := 0
		for u := 1; u <= 2; u++ {
			if _, ok := zp.g1[fmt.Sprintf("g1/1/%d", u)]; ok {
				have++
			}
			for ci := 0; ci < 4; ci++ {
				if _, ok := zp.g2[fmt.Sprintf("g2/%d/%d", ci, u)]; ok {
					have++
				}
			}
		}
		if have >= need {
			break
		}
	}
	return zp
}

func hexOf(b *big.Int) string { return "0x" + b.Text(16) }

// roundTrip checks one proof against the ProofCodec specification: JSON layout (EVM order, hex
// numbers) and lossless decode.  verify != nil additionally re-verifies the decoded proof.
func c10RoundTrip(id string, gp groth16.Proof, verify func(*prover.Proof) error) Result {
	coords, err := proofCoords(gp)
	if err != nil {
		die("%v", err)
	}
	lens := make([]int, 8)
	hexes := make([]string, 8)
	for i, c := range coords {
		lens[i] = (c.BitLen() + 7) / 8
		hexes[i] = hexOf(c)
	}
	res := Result{ID: id, OK: true, Kind: "proof-roundtrip", Expected: hexes}
	p := &prover.Proof{Proof: gp}
	js, err := json.Marshal(p)
	if err != nil {
		res.OK, res.Detail = false, "marshal error: "+err.Error()
		return res
	}
	var doc struct {
		Ar  []string   `json:"ar"`
		Bs  [][]string `json:"bs"`
		Krs []string   `json:"krs"`
	}
	if err := json.Unmarshal(js, &doc); err != nil || len(doc.Ar) != 2 || len(doc.Krs) != 2 || len(doc.Bs) != 2 || len(doc.Bs[0]) != 2 || len(doc.Bs[1]) != 2 {
		res.OK, res.Detail = false, "JSON shape is not {ar[2], bs[2][2], krs[2]} of strings: "+string(js)
		return res
	}
	got := []string{doc.Ar[0], doc.Ar[1], doc.Bs[0][0], doc.Bs[0][1], doc.Bs[1][0], doc.Bs[1][1], doc.Krs[0], doc.Krs[1]}
	res.Observed = got
	for i := range got {
		g, ok := new(big.Int).SetString(got[i], 0)
		if !ok || len(got[i]) < 3 || got[i][:2] != "0x" || g.Cmp(coords[i]) != 0 {
			res.OK = false
			res.Detail = fmt.Sprintf("JSON field %d is %s, the spec's EVM order requires coordinate %d = %s as a hexadecimal integer", i, got[i], i, hexes[i])
			return res
		}
	}
	var back prover.Proof
	if err := json.Unmarshal(js, &back); err != nil {
		res.OK, res.Detail = false, fmt.Sprintf("decoding the encoder's own output fails (coordinate byte lengths %v): %v", lens, err)
		return res
	}
	var b1, b2 bytes.Buffer
	gp.WriteRawTo(&b1)
	back.Proof.WriteRawTo(&b2)
	if !bytes.Equal(b1.Bytes(), b2.Bytes()) {
		res.OK, res.Detail = false, fmt.Sprintf("decoded proof differs from the original (coordinate byte lengths %v)", lens)
		return res
	}
	if verify != nil {
		if err := verify(&back); err != nil {
			res.OK, res.Detail = false, "decoded proof no longer verifies: "+err.Error()
		}
	}
	lj, _ := json.Marshal(lens)
	res.Detail = "lens=" + string(lj)
	return res
}

func init() {
	commands["c10"] = func(args []string) {
		var cs c10Cases
		loadCases(args, &cs)
		rng := rand.New(rand.NewSource(seed()))
		pools := buildPools(rng)
		maxT := 1
		if os.Getenv("VERIF_TIER") == "thorough" {
			maxT = 2
		}
		var zp *zPools
		for vi, v := range cs.Vectors {
			l := v.Lens
			a, okA := pools.g1[pat(l[0], l[1])]
			b, okB := pools.g2[pat(l[2], l[3], l[4], l[5])]
			c, okC := pools.g1[pat(l[6], l[7])]
			id := fmt.Sprintf("vector%d/%s", vi, pat(l...))
			for ci, t := range v.Tz {
				if t == 0 {
					continue
				}
				if zp == nil {
					zp = buildZPools(rng, maxT)
				}
				id += fmt.Sprintf("/tz%d=%d", ci, t)
				switch {
				case ci < 2:
					a, okA = zp.g1[fmt.Sprintf("g1/%d/%d", ci, t)]
				case ci < 6:
					b, okB = zp.g2[fmt.Sprintf("g2/%d/%d", ci-2, t)]
				default:
					c, okC = zp.g1[fmt.Sprintf("g1/%d/%d", ci-6, t)]
				}
			}
			if !okA || !okB || !okC {
				emit(Result{ID: id, OK: true, Trivial: true, Kind: "unrealizable", Detail: "no curve point found with this short/full pattern"})
				continue
			}
			gp, err := proofFromPoints(a, b, c)
			if err != nil {
				die("synthetic proof: %v", err)
			}
			r := c10RoundTrip(id, gp, nil)
			if !r.OK {
				r.Case = map[string]interface{}{"vectors": []c10Vector{v}}
			}
			emit(r)
		}
		// the codec is a pure function: overlapping Marshal / Unmarshal calls (several /prove responses finishing together) must each
		// produce what a call running alone produces
		{
			var all []groth16.Proof
			for _, a := range pools.g1 {
				for _, b := range pools.g2 {
					if gp, err := proofFromPoints(a, b, a); err == nil {
						all = append(all, gp)
					}
				}
			}
			ref := make([]string, len(all))
			for i, gp := range all {
				js, _ := json.Marshal(&prover.Proof{Proof: gp})
				ref[i] = string(js)
			}
			var wg sync.WaitGroup
			var mu sync.Mutex
			bad := ""
			for g := 0; g < 32; g++ {
				wg.Add(1)
				go func(g int) {
					defer wg.Done()
					for it := 0; it < 60; it++ {
						i := (g*7 + it) % len(all)
						js, err := json.Marshal(&prover.Proof{Proof: all[i]})
						var back prover.Proof
						uerr := json.Unmarshal([]byte(ref[i]), &back)
						if err != nil || string(js) != ref[i] || uerr != nil {
							mu.Lock()
							if bad == "" {
								bad = fmt.Sprintf("concurrent json.Marshal of proof %d gives %s (err=%v, unmarshal err=%v), alone it gives %s", i, string(js), err, uerr, ref[i])
							}
							mu.Unlock()
						}
					}
				}(g)
			}
			wg.Wait()
			r := Result{ID: "concurrent-codec", OK: bad == "", Kind: "proof-roundtrip-concurrent", Detail: bad}
			if bad != "" {
				r.Case = map[string]interface{}{"vectors": []c10Vector{}, "real": 0}
			}
			emit(r)
		}
		if cs.Real > 0 {
			ps := setupCached(cs.Mode, cs.Depth, cs.Batch)
			for i := 0; i < cs.Real; i++ {
				var gp *prover.Proof
				var err error
				var h big.Int
				if cs.Mode == "insertion" {
					p := randomValidInsertion(rng, int(cs.Depth), int(cs.Batch))
					h = p.InputHash
					gp, err = ps.ProveInsertion(p)
				} else {
					p := randomValidDeletion(rng, int(cs.Depth), int(cs.Batch))
					h = p.InputHash
					gp, err = ps.ProveDeletion(p)
				}
				if err != nil {
					die("prove on a valid batch failed: %v", err)
				}
				r := c10RoundTrip(fmt.Sprintf("real%d", i), gp.Proof, func(q *prover.Proof) error {
					if cs.Mode == "insertion" {
						return ps.VerifyInsertion(h, q)
					}
					return ps.VerifyDeletion(h, q)
				})
				r.Kind = "real-proof-roundtrip"
				if !r.OK {
					js, _ := json.Marshal(gp)
					r.Case = map[string]interface{}{"proof_json": string(js), "mode": cs.Mode, "depth": cs.Depth, "batch": cs.Batch, "real": i + 1, "note": "re-run generates the same seeded sequence of proofs"}
				}
				emit(r)
			}
		}
	}
}
