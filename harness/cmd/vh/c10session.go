package main

// C10, session leg: ProofSession.tla behaviours (decode into reused destinations, keep by value, assign, check later) on the real codec.
// The spec says, for every `check`, which document the kept value must encode to; real proofs are also verified.

import (
	"encoding/json"
	"fmt"
	"math/big"
	"math/rand"

	"worldcoin/gnark-mbu/prover"
)

func init() {
	commands["c10-session"] = func(args []string) {
		var cs struct {
			Behaviours [][]map[string]interface{} `json:"behaviours"`
			Docs       []string                   `json:"docs"`
		}
		loadCases(args, &cs)
		rng := rand.New(rand.NewSource(seed()))
		ps := setupCached("deletion", 1, 1)
		docs := map[string]string{}
		hashes := map[string]big.Int{}
		for _, name := range cs.Docs {
			p := randomValidDeletion(rng, 1, 1)
			gp, err := ps.ProveDeletion(p)
			if err != nil {
				die("prove on a valid batch failed: %v", err)
			}
			js, err := json.Marshal(gp)
			if err != nil {
				die("marshal: %v", err)
			}
			docs[name], hashes[name] = string(js), p.InputHash
		}
		for bi, bh := range cs.Behaviours {
			r := Result{ID: fmt.Sprintf("session%d", bi), OK: true, Kind: "proof-session"}
			fail := func(format string, a ...interface{}) {
				if r.OK {
					r.OK, r.Detail = false, fmt.Sprintf(format, a...)
					r.Case = map[string]interface{}{"behaviours": [][]map[string]interface{}{bh}, "docs": cs.Docs}
				}
			}
			// destinations are the elements of one reused slice, as a batcher collecting proofs would hold them
			names := map[string]int{}
			ds := make([]prover.Proof, 4)
			at := func(n interface{}) *prover.Proof {
				s := n.(string)
				if _, ok := names[s]; !ok {
					names[s] = len(names)
				}
				return &ds[names[s]]
			}
			var kept []prover.Proof
			for oi, op := range bh {
				switch op["op"] {
				case "decode":
					if err := json.Unmarshal([]byte(docs[op["doc"].(string)]), at(op["dest"])); err != nil {
						fail("op %d: decoding a document the encoder produced failed: %v", oi, err)
					}
				case "keep":
					kept = append(kept, *at(op["dest"]))
				case "assign":
					*at(op["to"]) = *at(op["dest"])
				case "check":
					i := int(op["kept"].(float64)) - 1
					want := op["doc"].(string)
					if i >= len(kept) || kept[i].Proof == nil {
						die("behaviour %d op %d: no kept value %d", bi, oi, i)
					}
					js, err := json.Marshal(&kept[i])
					if err != nil {
						fail("op %d: encoding kept value %d failed: %v", oi, i+1, err)
					} else if string(js) != docs[want] {
						other := "an unknown document"
						for n, d := range docs {
							if d == string(js) {
								other = "document " + n
							}
						}
						fail("op %d: kept value %d was decoded from document %s but now encodes to %s (decoded proofs are values: a later decode must not change them)", oi, i+1, want, other)
					}
					if err := ps.VerifyDeletion(hashes[want], &kept[i]); err != nil {
						fail("op %d: kept value %d (decoded from %s) no longer verifies for its input hash: %v", oi, i+1, want, err)
					}
				}
			}
			emit(r)
		}
	}
}
