package main

import (
	"encoding/json"
	"fmt"
	"math/big"
	"reflect"
	"strings"

	"worldcoin/gnark-mbu/prover"
)

// ---- numerals: every string TLC enumerated is placed in numeric positions of otherwise valid
// documents and decoded by the real UnmarshalJSON
type numCase struct {
	S       string `json:"s"`
	Kind    string `json:"kind"` // must-accept | must-reject | either
	Accepts bool   `json:"accepts"`
	Value   int64  `json:"value"`
}

func jsonStr(s string) string { b, _ := json.Marshal(s); return string(b) }

func insDoc(hash, pre, post, id, proof string) string {
	return fmt.Sprintf(`{"inputHash":%s,"startIndex":0,"preRoot":%s,"postRoot":%s,"identityCommitments":[%s],"merkleProofs":[[%s]]}`, hash, pre, post, id, proof)
}
func delDoc(hash, pre, post, id, proof string) string {
	return fmt.Sprintf(`{"inputHash":%s,"deletionIndices":[0],"preRoot":%s,"postRoot":%s,"identityCommitments":[%s],"merkleProofs":[[%s]]}`, hash, pre, post, id, proof)
}

// decodeAt decodes a document with the numeral at position pos (0..4) of the given mode; returns (value, ok)
func decodeAt(mode string, pos int, s string) (*big.Int, bool, string) {
	f := []string{`"0x1"`, `"0x2"`, `"0x3"`, `"0x4"`, `"0x5"`}
	f[pos] = jsonStr(s)
	if mode == "insertion" {
		var p prover.InsertionParameters
		if err := json.Unmarshal([]byte(insDoc(f[0], f[1], f[2], f[3], f[4])), &p); err != nil {
			return nil, false, err.Error()
		}
		vals := []*big.Int{&p.InputHash, &p.PreRoot, &p.PostRoot, &p.IdComms[0], &p.MerkleProofs[0][0]}
		return vals[pos], true, ""
	}
	var p prover.DeletionParameters
	if err := json.Unmarshal([]byte(delDoc(f[0], f[1], f[2], f[3], f[4])), &p); err != nil {
		return nil, false, err.Error()
	}
	vals := []*big.Int{&p.InputHash, &p.PreRoot, &p.PostRoot, &p.IdComms[0], &p.MerkleProofs[0][0]}
	return vals[pos], true, ""
}

// ---- round trips: shape x magnitude classes
type rtCase struct {
	Mode   string     `json:"mode"`
	Start  string     `json:"start"`
	Idxs   []string   `json:"idxs"`
	Hash   string     `json:"hash"`
	Pre    string     `json:"pre"`
	Post   string     `json:"post"`
	Ids    []string   `json:"ids"`
	Proofs [][]string `json:"proofs"`
}

func bigList(ss []string) []big.Int {
	out := make([]big.Int, len(ss))
	for i, s := range ss {
		out[i] = *bigOf(s)
	}
	return out
}

func eqBigs(a, b []big.Int) bool {
	if len(a) != len(b) {
		return false
	}
	for i := range a {
		if a[i].Cmp(&b[i]) != 0 {
			return false
		}
	}
	return true
}

func init() {
	commands["c16-num"] = func(args []string) {
		var cs struct {
			Cases []numCase `json:"cases"`
		}
		loadCases(args, &cs)
		for i, c := range cs.Cases {
			// spec-vs-reference: the machine must agree with Go's own base-0 scanner on every string (spec bug otherwise)
			if ref, ok := new(big.Int).SetString(c.S, 0); ok != c.Accepts || (ok && ref.Cmp(big.NewInt(c.Value)) != 0) {
				emit(Result{ID: fmt.Sprintf("num%d/%q", i, c.S), OK: false, Kind: "spec-vs-reference", Expected: fmt.Sprint(c.Accepts, c.Value), Observed: fmt.Sprint(ok, ref)})
				continue
			}
			r := Result{ID: fmt.Sprintf("num%d/%q", i, c.S), OK: true, Kind: "numeral", Expected: c.Kind}
			for _, mode := range []string{"insertion", "deletion"} {
				for pos := 0; pos < 5; pos++ {
					if (i+pos)%5 != 0 && c.Kind != "must-accept" && len(c.S) > 2 {
						continue // every string in one position per mode, short strings and hex in all positions
					}
					v, ok, _ := decodeAt(mode, pos, c.S)
					switch c.Kind {
					case "must-accept":
						if !ok || v.Cmp(big.NewInt(c.Value)) != 0 {
							r.OK, r.Detail = false, fmt.Sprintf("%s position %d: hexadecimal numeral %q must decode to %d, got ok=%v value=%v", mode, pos, c.S, c.Value, ok, v)
						}
					case "must-reject":
						if ok {
							r.OK, r.Detail = false, fmt.Sprintf("%s position %d: %q is not a number but decoding succeeded with value %v", mode, pos, c.S, v)
						}
					default:
						if ok && c.Accepts && v.Cmp(big.NewInt(c.Value)) != 0 {
							r.OK, r.Detail = false, fmt.Sprintf("%s position %d: %q accepted with value %v, the notation denotes %d", mode, pos, c.S, v, c.Value)
						}
					}
				}
			}
			if !r.OK {
				r.Case = map[string]interface{}{"cases": []numCase{c}}
			}
			emit(r)
		}
	}
	commands["c16-rt"] = func(args []string) {
		var cs struct {
			Cases []rtCase `json:"cases"`
		}
		loadCases(args, &cs)
		// decoded values are kept and compared AGAIN after all documents were decoded: a decoded parameter set is a value and must not
		// change when later documents are decoded in the same process
		type kept struct {
			id   string
			ins  *prover.InsertionParameters
			del  *prover.DeletionParameters
			js   string
			item rtCase
		}
		var keep []kept
		defer func() {
			for _, k := range keep {
				var again []byte
				if k.ins != nil {
					again, _ = json.Marshal(k.ins)
				} else {
					again, _ = json.Marshal(k.del)
				}
				if string(again) != k.js {
					emit(Result{ID: k.id + "/later", OK: false, Kind: "roundtrip", Detail: "a decoded parameter set changed after later documents were decoded in the same process: it now encodes as " + string(again) + ", it was decoded from " + k.js,
						Case: map[string]interface{}{"cases": cs.Cases}})
					return
				}
			}
		}()
		for i, c := range cs.Cases {
			r := Result{ID: fmt.Sprintf("rt%d/%s", i, c.Mode), OK: true, Kind: "roundtrip"}
			proofs := make([][]big.Int, len(c.Proofs))
			for k := range c.Proofs {
				proofs[k] = bigList(c.Proofs[k])
			}
			var js []byte
			var err error
			if c.Mode == "insertion" {
				p := prover.InsertionParameters{InputHash: *bigOf(c.Hash), StartIndex: uint32(bigOf(c.Start).Uint64()), PreRoot: *bigOf(c.Pre), PostRoot: *bigOf(c.Post), IdComms: bigList(c.Ids), MerkleProofs: proofs}
				js, err = json.Marshal(&p)
				var q prover.InsertionParameters
				if err == nil {
					err = json.Unmarshal(js, &q)
					if err == nil {
						keep = append(keep, kept{id: r.ID, ins: &q, js: string(js), item: c})
					}
				}
				if err != nil {
					r.OK, r.Detail = false, "round trip fails: "+err.Error()
				} else if q.InputHash.Cmp(&p.InputHash) != 0 || q.StartIndex != p.StartIndex || q.PreRoot.Cmp(&p.PreRoot) != 0 || q.PostRoot.Cmp(&p.PostRoot) != 0 || !eqBigs(q.IdComms, p.IdComms) || len(q.MerkleProofs) != len(p.MerkleProofs) {
					r.OK, r.Detail = false, "decoded parameters differ from the original: "+string(js)
				} else {
					for k := range p.MerkleProofs {
						if !eqBigs(q.MerkleProofs[k], p.MerkleProofs[k]) {
							r.OK, r.Detail = false, fmt.Sprintf("merkle proof %d differs after the round trip", k)
						}
					}
				}
			} else {
				idx := make([]uint32, len(c.Idxs))
				for k, s := range c.Idxs {
					idx[k] = uint32(bigOf(s).Uint64())
				}
				p := prover.DeletionParameters{InputHash: *bigOf(c.Hash), DeletionIndices: idx, PreRoot: *bigOf(c.Pre), PostRoot: *bigOf(c.Post), IdComms: bigList(c.Ids), MerkleProofs: proofs}
				js, err = json.Marshal(&p)
				var q prover.DeletionParameters
				if err == nil {
					err = json.Unmarshal(js, &q)
					if err == nil {
						keep = append(keep, kept{id: r.ID, del: &q, js: string(js), item: c})
					}
				}
				if err != nil {
					r.OK, r.Detail = false, "round trip fails: "+err.Error()
				} else if q.InputHash.Cmp(&p.InputHash) != 0 || !(len(q.DeletionIndices) == len(p.DeletionIndices) && (len(p.DeletionIndices) == 0 || reflect.DeepEqual(q.DeletionIndices, p.DeletionIndices))) || q.PreRoot.Cmp(&p.PreRoot) != 0 || q.PostRoot.Cmp(&p.PostRoot) != 0 || !eqBigs(q.IdComms, p.IdComms) || len(q.MerkleProofs) != len(p.MerkleProofs) {
					r.OK, r.Detail = false, "decoded parameters differ from the original: "+string(js)
				} else {
					for k := range p.MerkleProofs {
						if !eqBigs(q.MerkleProofs[k], p.MerkleProofs[k]) {
							r.OK, r.Detail = false, fmt.Sprintf("merkle proof %d differs after the round trip", k)
						}
					}
				}
			}
			// the encoder emits the notation the property names: 0x-hexadecimal strings
			if r.OK && !strings.Contains(string(js), `"0x`) {
				r.OK, r.Detail = false, "encoder does not emit 0x-hexadecimal: "+string(js)
			}
			if !r.OK {
				r.Case = map[string]interface{}{"cases": []rtCase{c}}
			}
			emit(r)
		}
	}
	// index bounds: indices outside 32 bits (and non-integers) must make decoding fail
	commands["c16-idx"] = func(args []string) {
		var cs struct {
			Cases []struct {
				Lit    string `json:"lit"`
				Accept bool   `json:"accept"`
				Value  string `json:"value"`
			} `json:"cases"`
		}
		loadCases(args, &cs)
		for i, c := range cs.Cases {
			r := Result{ID: fmt.Sprintf("idx%d/%s", i, c.Lit), OK: true, Kind: "index"}
			ins := fmt.Sprintf(`{"inputHash":"0x1","startIndex":%s,"preRoot":"0x2","postRoot":"0x3","identityCommitments":[],"merkleProofs":[]}`, c.Lit)
			del := fmt.Sprintf(`{"inputHash":"0x1","deletionIndices":[%s],"preRoot":"0x2","postRoot":"0x3","identityCommitments":[],"merkleProofs":[]}`, c.Lit)
			var p prover.InsertionParameters
			e1 := json.Unmarshal([]byte(ins), &p)
			var q prover.DeletionParameters
			e2 := json.Unmarshal([]byte(del), &q)
			if c.Accept {
				want := bigOf(c.Value).Uint64()
				if e1 != nil || uint64(p.StartIndex) != want || e2 != nil || len(q.DeletionIndices) != 1 || uint64(q.DeletionIndices[0]) != want {
					r.OK, r.Detail = false, fmt.Sprintf("index literal %s must decode to %d: insertion err=%v value=%d, deletion err=%v value=%v", c.Lit, want, e1, p.StartIndex, e2, q.DeletionIndices)
				}
			} else if e1 == nil || e2 == nil {
				r.OK, r.Detail = false, fmt.Sprintf("index literal %s is outside 32 bits / not an integer but decoding succeeded (insertion err=%v -> %d, deletion err=%v -> %v)", c.Lit, e1, p.StartIndex, e2, q.DeletionIndices)
			}
			if !r.OK {
				r.Case = map[string]interface{}{"cases": cs.Cases[i : i+1]}
			}
			emit(r)
		}
	}
}
