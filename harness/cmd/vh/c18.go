package main

import (
	"encoding/json"
	"fmt"
	"math/big"
	"math/rand"

	"worldcoin/gnark-mbu/poseidon_tree"
)

type treeOp struct {
	Path  []int    `json:"path"`
	Value string   `json:"value"`
	Root  string   `json:"root"`
	Proof []string `json:"proof"`
}
type treeHistory struct {
	Depth int      `json:"depth"`
	Ops   []treeOp `json:"ops"`
}

func intOfPath(p []int) int {
	i := 0
	for _, b := range p {
		i = 2*i + b
	}
	return i
}

// reference recomputation from scratch (sparse), independent of the code under test; used by the
// recorder so that the recorded trace carries what a "full recomputation" yields
func init() {
	commands["c18"] = func(args []string) {
		var cs struct {
			Histories []treeHistory `json:"histories"`
		}
		loadCases(args, &cs)
		it := newInterp(fmt.Sprint("c18/", seed()))
		for hi, h := range cs.Histories {
			tree := poseidon_tree.NewTree(h.Depth)
			id := fmt.Sprintf("depth%d/history%d", h.Depth, hi)
			r := Result{ID: id, OK: true, Kind: "tree-history"}
			for oi, op := range h.Ops {
				v := it.eval(op.Value)
				proof := tree.Update(intOfPath(op.Path), *v)
				root := tree.Root()
				want := it.eval(op.Root)
				if root.Cmp(want) != 0 {
					r.OK = false
					r.Detail = fmt.Sprintf("after op %d (Update(%d, %s)): Root() = %s, the spec's root term %s evaluates to %s", oi, intOfPath(op.Path), op.Value, root.String(), op.Root, want)
					break
				}
				if len(proof) != len(op.Proof) {
					r.OK, r.Detail = false, fmt.Sprintf("op %d: proof has %d elements, spec %d", oi, len(proof), len(op.Proof))
					break
				}
				for k := range proof {
					if proof[k].Cmp(it.eval(op.Proof[k])) != 0 {
						r.OK = false
						r.Detail = fmt.Sprintf("after op %d (Update(%d, %s)): proof[%d] = %s, the spec's term %s evaluates to %s", oi, intOfPath(op.Path), op.Value, k, proof[k].String(), op.Proof[k], it.eval(op.Proof[k]))
						break
					}
				}
				if !r.OK {
					break
				}
			}
			if !r.OK {
				r.Case = map[string]interface{}{"histories": []treeHistory{h}}
			}
			emit(r)
		}
	}
	// recorder: random histories on the real tree, concrete values; validated afterwards by TLC (TraceTree.tla)
	commands["c18-record"] = func(args []string) {
		var cs struct {
			Depths []int `json:"depths"`
			Ops    int   `json:"ops"`
			Traces int   `json:"traces"`
		}
		loadCases(args, &cs)
		rng := rand.New(rand.NewSource(seed()))
		for t := 0; t < cs.Traces; t++ {
			depth := cs.Depths[t%len(cs.Depths)]
			tree := poseidon_tree.NewTree(depth)
			var used [][]int
			for o := 0; o < cs.Ops; o++ {
				path := make([]int, depth)
				switch rng.Intn(4) {
				case 0:
					if len(used) > 0 {
						copy(path, used[rng.Intn(len(used))]) // repeated index
						break
					}
					fallthrough
				case 1: // sparse far-apart / extreme indices
					fill := rng.Intn(2)
					for i := range path {
						path[i] = fill
					}
					if depth > 1 && rng.Intn(2) == 0 {
						path[rng.Intn(depth)] ^= 1
					}
				default:
					for i := range path {
						path[i] = rng.Intn(2)
					}
				}
				used = append(used, append([]int(nil), path...))
				var v *big.Int
				switch rng.Intn(5) {
				case 0:
					v = big.NewInt(0)
				case 1:
					v = big.NewInt(int64(1 + rng.Intn(5)))
				default:
					v = randField(rng)
				}
				idx := 0
				for _, b := range path {
					idx = idx<<1 | b
				}
				proof := tree.Update(idx, *v)
				root := tree.Root()
				ps := make([]string, len(proof))
				for i := range proof {
					ps[i] = proof[i].String()
				}
				ev := map[string]interface{}{"event": "update", "trace": t, "depth": depth, "path": path, "value": v.String(), "root": root.String(), "proof": ps}
				if o == 0 {
					ev["event"] = "reset"
				}
				b, _ := json.Marshal(ev)
				fmt.Println(string(b))
			}
		}
	}
}
