package main

// End-to-end leg of C01/C02: MTB.tla histories (honest prefix + one tested batch) driven through the
// whole system as a batcher would: the real off-chain tree produces the sibling paths (and must agree
// with the spec's terms), the library helper computes the input hash, the document goes over HTTP to a
// real prover service of the right mode, the returned proof is verified against the ON-CHAIN hash
// formula, and a model of the contract (current root) advances exactly when the spec says the batch
// is applied.

import (
	"bytes"
	"encoding/json"
	"fmt"
	"io"
	"math/big"
	"net/http"
	"time"

	"worldcoin/gnark-mbu/poseidon_tree"
	"worldcoin/gnark-mbu/prover"
	"worldcoin/gnark-mbu/server"
)

func postJSON(addr string, body []byte) (int, []byte, error) {
	cl := &http.Client{Transport: &http.Transport{DisableKeepAlives: true}, Timeout: 120 * time.Second}
	rs, err := cl.Post("http://"+addr+"/prove", "application/json", bytes.NewReader(body))
	if err != nil {
		return 0, nil, err
	}
	defer rs.Body.Close()
	b, err := io.ReadAll(rs.Body)
	return rs.StatusCode, b, err
}

func init() {
	commands["e2e"] = func(args []string) {
		var cs struct {
			Behaviours []mtbBehaviour `json:"behaviours"`
		}
		loadCases(args, &cs)
		if len(cs.Behaviours) == 0 {
			return
		}
		depth, batch := cs.Behaviours[0].Depth, cs.Behaviours[0].BatchSize
		type svc struct {
			ps   *prover.ProvingSystem
			addr string
			job  server.RunningJob
		}
		svcs := map[string]*svc{}
		for _, mode := range []string{"insertion", "deletion"} {
			s := &svc{ps: setupCached(mode, uint32(depth), uint32(batch)), addr: freeAddr()}
			cfg := server.Config{ProverAddress: s.addr, MetricsAddress: freeAddr(), Mode: mode}
			s.job = server.Run(&cfg, s.ps)
			svcs[mode] = s
		}
		defer func() {
			for _, s := range svcs {
				s.job.RequestStop()
				s.job.AwaitStop()
			}
		}()
		for _, s := range svcs {
			for i := 0; i < 2000; i++ {
				if rs, err := http.Get("http://" + s.addr + "/prove"); err == nil {
					rs.Body.Close()
					break
				}
				time.Sleep(5 * time.Millisecond)
			}
		}
		it := newInterp(fmt.Sprint("e2e/", seed()))
		for bi, bh := range cs.Behaviours {
			r := Result{ID: fmt.Sprintf("e2e/behaviour%d", bi), OK: true, Kind: "e2e"}
			fail := func(format string, a ...interface{}) {
				if r.OK {
					r.OK, r.Detail = false, fmt.Sprintf(format, a...)
					r.Case = map[string]interface{}{"behaviours": []mtbBehaviour{bh}}
				}
			}
			tree := poseidon_tree.NewTree(bh.Depth)
			contract := tree.Root()
			for oi := range bh.Ops {
				op := &bh.Ops[oi]
				w := op.witness(it, bh.Depth, bh.BatchSize)
				if w.Start.BitLen() > 32 {
					break // not expressible as a parameter document (uint32); covered by the direct circuit replay
				}
				skip := false
				for _, ix := range w.Indices {
					if ix.BitLen() > 32 {
						skip = true
					}
				}
				if skip {
					break
				}
				mode := op.Batch.Mode
				var body []byte
				var helper, onchain *big.Int
				if mode == "insertion" {
					p := &prover.InsertionParameters{StartIndex: uint32(w.Start.Uint64()), PreRoot: *fe(w.Pre), PostRoot: *fe(w.Post)}
					for i := range w.Ids {
						p.IdComms = append(p.IdComms, *fe(w.Ids[i]))
						row := make([]big.Int, len(w.Proofs[i]))
						for j := range row {
							row[j] = *fe(w.Proofs[i][j])
						}
						p.MerkleProofs = append(p.MerkleProofs, row)
					}
					p.ComputeInputHashInsertion()
					helper, onchain = new(big.Int).Set(&p.InputHash), refInputHashInsertion(p)
					body, _ = json.Marshal(p)
				} else {
					p := &prover.DeletionParameters{PreRoot: *fe(w.Pre), PostRoot: *fe(w.Post)}
					for i := range w.Ids {
						p.DeletionIndices = append(p.DeletionIndices, uint32(w.Indices[i].Uint64()))
						p.IdComms = append(p.IdComms, *fe(w.Ids[i]))
						row := make([]big.Int, len(w.Proofs[i]))
						for j := range row {
							row[j] = *fe(w.Proofs[i][j])
						}
						p.MerkleProofs = append(p.MerkleProofs, row)
					}
					p.ComputeInputHashDeletion()
					helper, onchain = new(big.Int).Set(&p.InputHash), refInputHashDeletion(p)
					body, _ = json.Marshal(p)
				}
				if helper.Cmp(onchain) != 0 {
					fail("op %d: the library's input hash %s differs from the on-chain formula %s", oi, hexOf(helper), hexOf(onchain))
				}
				status, resp, err := postJSON(svcs[mode].addr, body)
				if err != nil {
					fail("op %d (%s): request failed: %v", oi, mode, err)
					break
				}
				if (status == 200) != op.Accept {
					fail("op %d (%s batch, MTB.tla accept=%v): /prove answered %d %s", oi, mode, op.Accept, status, firstLine(string(resp)))
					break
				}
				if status == 200 {
					var pr prover.Proof
					if e := json.Unmarshal(resp, &pr); e != nil {
						fail("op %d: 200 body is not a proof: %v", oi, e)
						break
					}
					verify := svcs[mode].ps.VerifyDeletion
					if mode == "insertion" {
						verify = svcs[mode].ps.VerifyInsertion
					}
					if e := verify(*onchain, &pr); e != nil {
						fail("op %d: the contract (on-chain hash formula) would reject the returned proof: %v", oi, e)
						break
					}
				}
				// the contract applies the batch iff the proof verifies and the batch starts from its current root
				if op.Accept && fe(w.Pre).Cmp(&contract) == 0 {
					if !op.Applied {
						fail("op %d: the contract would apply a batch MTB.tla does not apply", oi)
					}
					// the off-chain tree follows, and must produce exactly the paths the spec's batch carried
					for i := range w.Ids {
						var got []big.Int
						if mode == "insertion" {
							got = tree.Update(int(w.Start.Uint64())+i, *fe(w.Ids[i]))
						} else if w.Indices[i].Cmp(big.NewInt(int64(1<<bh.Depth))) < 0 {
							got = tree.Update(int(w.Indices[i].Uint64()), *big.NewInt(0))
						} else {
							continue
						}
						if op.Batch.Slots[i].Dev != nil && allZero(op.Batch.Slots[i].Dev) {
							for j := range got {
								if got[j].Cmp(fe(w.Proofs[i][j])) != 0 {
									fail("op %d slot %d: the off-chain tree's sibling path differs from the spec's at level %d", oi, i, j)
								}
							}
						}
					}
					contract = *fe(w.Post)
					if root := tree.Root(); root.Cmp(&contract) != 0 {
						fail("op %d: after the batch the off-chain tree root %s differs from the contract root %s", oi, root.String(), contract.String())
					}
				} else if op.Applied {
					fail("op %d: MTB.tla applies the batch but the contract would not (pre-root is not the current root)", oi)
				}
			}
			emit(r)
		}
	}
}

func allZero(xs []int) bool {
	for _, x := range xs {
		if x != 0 && x != 2 {
			return false
		}
	}
	return true
}
