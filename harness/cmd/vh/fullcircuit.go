package main

import (
	"fmt"
	"math/big"

	"github.com/consensys/gnark/backend"
	"github.com/consensys/gnark/constraint"
	"github.com/consensys/gnark/frontend"
	"worldcoin/gnark-mbu/prover"
)

// Shapes and assignments of the REAL circuits (prover.InsertionMbuCircuit / DeletionMbuCircuit).

func insShape(depth, batch int) *prover.InsertionMbuCircuit {
	proofs := make([][]frontend.Variable, batch)
	for i := range proofs {
		proofs[i] = make([]frontend.Variable, depth)
	}
	return &prover.InsertionMbuCircuit{Depth: depth, BatchSize: batch, IdComms: make([]frontend.Variable, batch), MerkleProofs: proofs}
}

func delShape(depth, batch int) *prover.DeletionMbuCircuit {
	proofs := make([][]frontend.Variable, batch)
	for i := range proofs {
		proofs[i] = make([]frontend.Variable, depth)
	}
	return &prover.DeletionMbuCircuit{Depth: depth, BatchSize: batch, DeletionIndices: make([]frontend.Variable, batch), IdComms: make([]frontend.Variable, batch), MerkleProofs: proofs}
}

// generic full-witness description used by the drivers: every value is a big.Int so that
// out-of-range values (>= 2^32 indices, >= r roots) can be expressed
type fullWitness struct {
	Mode    string
	Depth   int
	Batch   int
	Hash    *big.Int
	Start   *big.Int   // insertion
	Indices []*big.Int // deletion
	Pre     *big.Int
	Post    *big.Int
	Ids     []*big.Int
	Proofs  [][]*big.Int
}

// a witness holds field elements: every value is reduced modulo r, as frontend.NewWitness does
func fe(v *big.Int) *big.Int { return new(big.Int).Mod(v, bn254R) }

func (w *fullWitness) assignment() frontend.Circuit {
	ids := make([]frontend.Variable, w.Batch)
	for i := range ids {
		ids[i] = fe(w.Ids[i])
	}
	proofs := make([][]frontend.Variable, w.Batch)
	for i := range proofs {
		proofs[i] = make([]frontend.Variable, w.Depth)
		for j := range proofs[i] {
			proofs[i][j] = fe(w.Proofs[i][j])
		}
	}
	if w.Mode == "insertion" {
		return &prover.InsertionMbuCircuit{InputHash: fe(w.Hash), StartIndex: fe(w.Start), PreRoot: fe(w.Pre), PostRoot: fe(w.Post), IdComms: ids, MerkleProofs: proofs, Depth: w.Depth, BatchSize: w.Batch}
	}
	idx := make([]frontend.Variable, w.Batch)
	for i := range idx {
		idx[i] = fe(w.Indices[i])
	}
	return &prover.DeletionMbuCircuit{InputHash: fe(w.Hash), DeletionIndices: idx, PreRoot: fe(w.Pre), PostRoot: fe(w.Post), IdComms: ids, MerkleProofs: proofs, Depth: w.Depth, BatchSize: w.Batch}
}

func (w *fullWitness) shape() frontend.Circuit {
	if w.Mode == "insertion" {
		return insShape(w.Depth, w.Batch)
	}
	return delShape(w.Depth, w.Batch)
}

// engineAccepts: the real circuit in gnark's test engine (BN254)
func (w *fullWitness) engineAccepts() error {
	return engineSolved(w.shape(), w.assignment(), bn254R)
}

var ccsCache = map[string]constraint.ConstraintSystem{}

func realCCS(mode string, depth, batch int) (constraint.ConstraintSystem, error) {
	k := fmt.Sprintf("%s/%d/%d", mode, depth, batch)
	if c, ok := ccsCache[k]; ok {
		return c, nil
	}
	var c constraint.ConstraintSystem
	var err error
	if mode == "insertion" {
		c, err = prover.BuildR1CSInsertion(uint32(depth), uint32(batch))
	} else {
		c, err = prover.BuildR1CSDeletion(uint32(depth), uint32(batch))
	}
	if err == nil {
		ccsCache[k] = c
	}
	return c, err
}

// r1csAccepts: the R1CS returned by BuildR1CSInsertion/Deletion, solved by gnark's solver with
// honest hints unless replaced through opts
func (w *fullWitness) r1csAccepts(opts ...backend.ProverOption) error {
	ccs, err := realCCS(w.Mode, w.Depth, w.Batch)
	if err != nil {
		return fmt.Errorf("build: %w", err)
	}
	return r1csSolved(ccs, w.assignment(), bn254R, opts...)
}

func witnessOfInsertion(p *prover.InsertionParameters, depth int) *fullWitness {
	w := &fullWitness{Mode: "insertion", Depth: depth, Batch: len(p.IdComms), Hash: new(big.Int).Set(&p.InputHash),
		Start: new(big.Int).SetUint64(uint64(p.StartIndex)), Pre: new(big.Int).Set(&p.PreRoot), Post: new(big.Int).Set(&p.PostRoot)}
	for i := range p.IdComms {
		w.Ids = append(w.Ids, new(big.Int).Set(&p.IdComms[i]))
		row := make([]*big.Int, len(p.MerkleProofs[i]))
		for j := range row {
			row[j] = new(big.Int).Set(&p.MerkleProofs[i][j])
		}
		w.Proofs = append(w.Proofs, row)
	}
	return w
}

func witnessOfDeletion(p *prover.DeletionParameters, depth int) *fullWitness {
	w := &fullWitness{Mode: "deletion", Depth: depth, Batch: len(p.IdComms), Hash: new(big.Int).Set(&p.InputHash),
		Pre: new(big.Int).Set(&p.PreRoot), Post: new(big.Int).Set(&p.PostRoot)}
	for i := range p.IdComms {
		w.Indices = append(w.Indices, new(big.Int).SetUint64(uint64(p.DeletionIndices[i])))
		w.Ids = append(w.Ids, new(big.Int).Set(&p.IdComms[i]))
		row := make([]*big.Int, len(p.MerkleProofs[i]))
		for j := range row {
			row[j] = new(big.Int).Set(&p.MerkleProofs[i][j])
		}
		w.Proofs = append(w.Proofs, row)
	}
	return w
}
