//go:build g_merkle

package main

// C01/C02: the dishonest prover, exhaustively, on a real compiled R1CS.  The InsertionProof /
// DeletionProof gadgets (depth 1, one slot) are compiled over gnark's 47-element field; for each
// sampled input tuple EVERY output of the bit-decomposition hint (all of F_47^n) is tried, combined
// with candidate outputs of the is-zero inverse hint.  A tuple GadgetTiny.tla rejects must be
// unsatisfiable under all of them; a tuple it accepts must be satisfiable with the honest hints.

import (
	"encoding/json"
	"fmt"
	"math/big"

	"github.com/consensys/gnark/backend"
	"github.com/consensys/gnark/backend/hint"
	"github.com/consensys/gnark/frontend"
)

func init() {
	commands["gadget-hints"] = func(args []string) {
		var cs struct {
			Kind   string `json:"kind"`
			Depth  int    `json:"depth"`
			AllInv bool   `json:"allInv"`
			Items  []struct {
				T      tinyTuple `json:"t"`
				Accept bool      `json:"accept"`
			} `json:"items"`
		}
		loadCases(args, &cs)
		mod := big.NewInt(47)
		shape := func() frontend.Circuit {
			pr := [][]frontend.Variable{make([]frontend.Variable, cs.Depth)}
			if cs.Kind == "insertion" {
				return &insGadgetCircuit{Ids: make([]frontend.Variable, 1), Proofs: pr, depth: cs.Depth}
			}
			return &delGadgetCircuit{Idx: make([]frontend.Variable, 1), Ids: make([]frontend.Variable, 1), Proofs: pr, depth: cs.Depth}
		}
		ccs, err := compileR1CS(mod, shape())
		if err != nil {
			die("compile over F_47: %v", err)
		}
		nd := cs.Depth
		if cs.Kind == "deletion" {
			nd = cs.Depth + 1
		}
		invC := []int64{0, 1, 2, 23, 46, -1} // -1 = honest inverse
		if cs.AllInv {
			invC = invC[:0]
			for v := int64(0); v < 47; v++ {
				invC = append(invC, v)
			}
		}
		if cs.Kind == "insertion" {
			invC = []int64{-1} // the insertion gadget has no is-zero hint
		}
		for ti, it := range cs.Items {
			var idx []int
			var one int
			if json.Unmarshal(it.T.Idx, &one) == nil {
				idx = []int{one}
			} else {
				json.Unmarshal(it.T.Idx, &idx)
			}
			pv := [][]frontend.Variable{varsOf(it.T.Proofs[0])}
			var assign frontend.Circuit
			if cs.Kind == "insertion" {
				assign = &insGadgetCircuit{Start: idx[0], Pre: it.T.Pre, Post: it.T.Post, Ids: varsOf(it.T.Items), Proofs: pv, depth: cs.Depth}
			} else {
				assign = &delGadgetCircuit{Idx: varsOf(idx), Pre: it.T.Pre, Post: it.T.Post, Ids: varsOf(it.T.Items), Proofs: pv, depth: cs.Depth}
			}
			r := Result{ID: fmt.Sprintf("%s/tuple%d", cs.Kind, ti), OK: true, Kind: "gadget-hints", Expected: it.Accept}
			honest := r1csSolved(ccs, assign, mod) == nil
			if honest != it.Accept {
				r.OK = false
				r.Detail = fmt.Sprintf("%s gadget as R1CS over F_47, tuple %v: satisfiable with honest hints = %v, GadgetTiny.tla says %v", cs.Kind, it.T, honest, it.Accept)
			}
			tried, sat := 0, 0
			if !it.Accept {
				// how many decompositions does the circuit ask for, and how wide is each?  (an honest run with a counting wrapper)
				var widths []int
				r1csSolved(ccs, assign, mod, replaceHint(nBitsHint, func(m *big.Int, in []*big.Int, res []*big.Int) error {
					widths = append(widths, len(res))
					return nBitsHint(m, in, res)
				}))
				if len(widths) == 0 {
					widths = []int{nd}
				}
				// candidate lies: (a) every vector of F_47^nd on the low positions, zeros above, told to EVERY decomposition (the gadget as written
				// asks for exactly nd digits once); (b) surgical lies: one decomposition only is answered dishonestly, all others honestly, with
				// every F_47 vector on its low nd positions and every BOOLEAN vector over its full width (a decomposition wider than the
				// range it is meant to enforce has several boolean answers: v, v + p, ...)
				type lie struct {
					call   int // -1 = every call
					digits []int64
				}
				var lies []lie
				total := 1
				for i := 0; i < nd; i++ {
					total *= 47
				}
				vec := func(n, base, w int) []int64 {
					d := make([]int64, w)
					for i := range d {
						d[i] = int64(n % base)
						n /= base
					}
					return d
				}
				for n := 0; n < total; n++ {
					lies = append(lies, lie{-1, vec(n, 47, nd)})
				}
				if len(widths) > 1 || widths[0] != nd {
					for c, w := range widths {
						for n := 0; n < total; n++ {
							lies = append(lies, lie{c, vec(n, 47, nd)})
						}
						if w > nd && w <= 12 {
							for n := 0; n < 1<<w; n++ {
								lies = append(lies, lie{c, vec(n, 2, w)})
							}
						}
					}
				}
				for _, l := range lies {
					if !r.OK {
						break
					}
					digits, target := l.digits, l.call
					for _, iv := range invC {
						call := 0
						opts := []backend.ProverOption{replaceHint(nBitsHint, func(m *big.Int, in []*big.Int, res []*big.Int) error {
							me := call
							call++
							if target >= 0 && me != target {
								return nBitsHint(m, in, res)
							}
							for i := range res {
								if i < len(digits) {
									res[i].SetInt64(digits[i])
								} else {
									res[i].SetInt64(0)
								}
							}
							return nil
						})}
						if iv >= 0 {
							v := iv
							opts = append(opts, replaceHint(hint.InvZero, func(_ *big.Int, in []*big.Int, res []*big.Int) error {
								res[0].SetInt64(v)
								return nil
							}))
						}
						tried++
						if r1csSolved(ccs, assign, mod, opts...) == nil {
							sat++
							r.OK = false
							r.Detail = fmt.Sprintf("%s gadget as R1CS over F_47: tuple %v, which GadgetTiny.tla rejects, is SATISFIED when the prover answers decomposition %d (of %d, widths %v; -1 = all) with digits %v and is-zero inverse %d", cs.Kind, it.T, target, len(widths), widths, digits, iv)
							break
						}
					}
				}
			}
			r.Observed = map[string]int{"hint_assignments_tried": tried, "satisfiable": sat}
			if !r.OK {
				r.Case = map[string]interface{}{"kind": cs.Kind, "depth": cs.Depth, "allInv": cs.AllInv, "items": cs.Items[ti : ti+1]}
			}
			emit(r)
		}
	}
}
