//go:build g_merkle

package main

// C01/C02 leg (a): the InsertionProof / DeletionProof gadgets on EVERY tuple of a tiny field,
// compared with the accepted set TLC computed from GadgetTiny.tla.

import (
	"encoding/json"
	"fmt"
	"math/big"
	"sort"

	"github.com/consensys/gnark/frontend"
	"github.com/reilabs/gnark-lean-extractor/v2/abstractor"
	"worldcoin/gnark-mbu/prover"
)

type tinyTuple struct {
	Idx    json.RawMessage `json:"idx"`
	Pre    int             `json:"pre"`
	Post   int             `json:"post"`
	Items  []int           `json:"items"`
	Proofs [][]int         `json:"proofs"`
}

type insGadgetCircuit struct {
	Start  frontend.Variable
	Pre    frontend.Variable
	Post   frontend.Variable
	Ids    []frontend.Variable
	Proofs [][]frontend.Variable
	depth  int
}

func (c *insGadgetCircuit) Define(api frontend.API) error {
	root := abstractor.Call(api, prover.InsertionProof{StartIndex: c.Start, PreRoot: c.Pre, IdComms: c.Ids, MerkleProofs: c.Proofs, BatchSize: len(c.Ids), Depth: c.depth})
	api.AssertIsEqual(root, c.Post)
	return nil
}

type delGadgetCircuit struct {
	Idx    []frontend.Variable
	Pre    frontend.Variable
	Post   frontend.Variable
	Ids    []frontend.Variable
	Proofs [][]frontend.Variable
	depth  int
}

func (c *delGadgetCircuit) Define(api frontend.API) error {
	root := abstractor.Call(api, prover.DeletionProof{DeletionIndices: c.Idx, PreRoot: c.Pre, IdComms: c.Ids, MerkleProofs: c.Proofs, BatchSize: len(c.Ids), Depth: c.depth})
	api.AssertIsEqual(root, c.Post)
	return nil
}

func init() {
	commands["gadget-tiny"] = func(args []string) {
		var cs struct {
			P        int         `json:"p"`
			Depth    int         `json:"depth"`
			Batch    int         `json:"batch"`
			Kind     string      `json:"kind"`
			Accepted []tinyTuple `json:"accepted"`
			Part     int         `json:"part"`
			Parts    int         `json:"parts"`
		}
		loadCases(args, &cs)
		mod := big.NewInt(int64(cs.P))
		key := func(idx []int, pre, post int, items []int, proofs [][]int) string {
			return fmt.Sprint(idx, pre, post, items, proofs)
		}
		spec := map[string]bool{}
		for _, t := range cs.Accepted {
			var idx []int
			var one int
			if json.Unmarshal(t.Idx, &one) == nil {
				idx = []int{one}
			} else {
				json.Unmarshal(t.Idx, &idx)
			}
			spec[key(idx, t.Pre, t.Post, t.Items, t.Proofs)] = true
		}
		nIdx := 1
		if cs.Kind == "deletion" {
			nIdx = cs.Batch
		}
		nvars := nIdx + 2 + cs.Batch + cs.Batch*cs.Depth
		total := 1
		for i := 0; i < nvars; i++ {
			total *= cs.P
		}
		shapeProofs := func() [][]frontend.Variable {
			p := make([][]frontend.Variable, cs.Batch)
			for i := range p {
				p[i] = make([]frontend.Variable, cs.Depth)
			}
			return p
		}
		var onlyCode, onlySpec []string
		accepted, evaluated := 0, 0
		for n := cs.Part; n < total; n += cs.Parts {
			// decode n into the tuple
			v := make([]int, nvars)
			x := n
			for i := range v {
				v[i] = x % cs.P
				x /= cs.P
			}
			idx := v[:nIdx]
			pre, post := v[nIdx], v[nIdx+1]
			items := v[nIdx+2 : nIdx+2+cs.Batch]
			proofs := make([][]int, cs.Batch)
			for i := range proofs {
				proofs[i] = v[nIdx+2+cs.Batch+i*cs.Depth : nIdx+2+cs.Batch+(i+1)*cs.Depth]
			}
			pv := shapeProofs()
			for i := range pv {
				for j := range pv[i] {
					pv[i][j] = proofs[i][j]
				}
			}
			var err error
			if cs.Kind == "insertion" {
				err = engineSolved(&insGadgetCircuit{Ids: make([]frontend.Variable, cs.Batch), Proofs: shapeProofs(), depth: cs.Depth},
					&insGadgetCircuit{Start: idx[0], Pre: pre, Post: post, Ids: varsOf(items), Proofs: pv, depth: cs.Depth}, mod)
			} else {
				err = engineSolved(&delGadgetCircuit{Idx: make([]frontend.Variable, cs.Batch), Ids: make([]frontend.Variable, cs.Batch), Proofs: shapeProofs(), depth: cs.Depth},
					&delGadgetCircuit{Idx: varsOf(idx), Pre: pre, Post: post, Ids: varsOf(items), Proofs: pv, depth: cs.Depth}, mod)
			}
			evaluated++
			k := key(idx, pre, post, items, proofs)
			if err == nil {
				accepted++
				if !spec[k] {
					onlyCode = append(onlyCode, k)
				}
			} else if spec[k] {
				onlySpec = append(onlySpec, k+" ("+firstLine(err.Error())+")")
			}
		}
		sort.Strings(onlyCode)
		sort.Strings(onlySpec)
		r := Result{ID: fmt.Sprintf("%s/p=%d/d=%d/b=%d/part%d", cs.Kind, cs.P, cs.Depth, cs.Batch, cs.Part), OK: len(onlyCode)+len(onlySpec) == 0, Kind: "gadget-tiny",
			Observed: map[string]int{"evaluated": evaluated, "accepted_by_code": accepted, "accepted_by_code_only": len(onlyCode), "accepted_by_spec_only": len(onlySpec)}}
		if !r.OK {
			first := ""
			if len(onlyCode) > 0 {
				first = "the gadget ACCEPTS (idx, pre, post, items, proofs) = " + onlyCode[0] + " which GadgetTiny.tla rejects"
			} else {
				first = "the gadget REJECTS " + onlySpec[0] + " which GadgetTiny.tla accepts"
			}
			r.Detail = fmt.Sprintf("%s gadget over F_%d, depth %d, batch %d: %s (%d tuples accepted only by the code, %d only by the spec)", cs.Kind, cs.P, cs.Depth, cs.Batch, first, len(onlyCode), len(onlySpec))
			r.Case = map[string]interface{}{"p": cs.P, "depth": cs.Depth, "batch": cs.Batch, "kind": cs.Kind, "part": cs.Part, "parts": cs.Parts}
		}
		emit(r)
	}
}
