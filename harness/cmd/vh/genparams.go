package main

// gen-params: valid parameter documents in the tool's own JSON notation (prover.*Parameters.MarshalJSON) for a requested class of
// input-hash shape — the pipelines of C19 are fed batches whose hash has its top hex digit zero (odd number of digits as printed),
// its top byte zero, or neither, instead of the four fixed vectors of gen-test-params.

import (
	"encoding/json"
	"fmt"
	"math/rand"
)

func init() {
	commands["gen-params"] = func(args []string) {
		var cs struct {
			Mode    string   `json:"mode"`
			Depth   int      `json:"depth"`
			Batch   int      `json:"batch"`
			Classes []string `json:"classes"` // "any" | "odd-hex" | "zero-top-byte"
		}
		loadCases(args, &cs)
		rng := rand.New(rand.NewSource(seed()))
		for i, cl := range cs.Classes {
			var doc []byte
			var hash string
			for tries := 0; tries < 200000; tries++ {
				var h string
				var js []byte
				if cs.Mode == "insertion" {
					p := randomValidInsertion(rng, cs.Depth, cs.Batch)
					h = p.InputHash.Text(16)
					if hashClassOK(cl, h) {
						js, _ = json.Marshal(p)
					}
				} else {
					p := randomValidDeletion(rng, cs.Depth, cs.Batch)
					h = p.InputHash.Text(16)
					if hashClassOK(cl, h) {
						js, _ = json.Marshal(p)
					}
				}
				if js != nil {
					doc, hash = js, "0x"+h
					break
				}
			}
			if doc == nil {
				die("no valid batch with hash class %s found", cl)
			}
			b, _ := json.Marshal(map[string]interface{}{"i": i, "class": cl, "params": string(doc), "hash": hash})
			fmt.Println(string(b))
		}
	}
}

func hashClassOK(cl, h string) bool {
	switch cl {
	case "odd-hex":
		return len(h)%2 == 1
	case "zero-top-byte":
		return len(h) <= 62
	}
	return true
}
