package main

import (
	"fmt"
	"math/big"

	"github.com/consensys/gnark-crypto/ecc"
	"github.com/consensys/gnark/backend"
	"github.com/consensys/gnark/backend/hint"
	"github.com/consensys/gnark/constraint"
	"github.com/consensys/gnark/frontend"
	"github.com/consensys/gnark/frontend/cs/r1cs"
	"github.com/consensys/gnark/std/math/bits"
	"github.com/consensys/gnark/test"
)

var bn254R = ecc.BN254.ScalarField()

func bigOf(s string) *big.Int {
	b, ok := new(big.Int).SetString(s, 0)
	if !ok {
		die("bad number %q", s)
	}
	return b
}

// engineSolved runs a circuit in gnark's test engine over an arbitrary prime modulus.  All
// variables are constants there, so harness circuits can read the values computed by the
// gadget under test through api.Compiler().ConstantValue.
func engineSolved(circuit, assignment frontend.Circuit, mod *big.Int) error {
	return test.IsSolved(circuit, assignment, mod, test.SetAllVariablesAsConstants())
}

func constOf(api frontend.API, v frontend.Variable) *big.Int {
	c, ok := api.Compiler().ConstantValue(v)
	if !ok {
		return nil
	}
	return new(big.Int).Set(c)
}

func compileR1CS(mod *big.Int, c frontend.Circuit) (constraint.ConstraintSystem, error) {
	return frontend.Compile(mod, r1cs.NewBuilder, c)
}

// r1csSolved: is the compiled system satisfied by the full assignment (honest hints unless
// replaced through opts)?
func r1csSolved(ccs constraint.ConstraintSystem, assignment frontend.Circuit, mod *big.Int, opts ...backend.ProverOption) error {
	w, err := frontend.NewWitness(assignment, mod)
	if err != nil {
		return fmt.Errorf("witness: %w", err)
	}
	return ccs.IsSolved(w, opts...)
}

// replaceHint returns a prover option that REPLACES a registered hint function (gnark v0.8.0:
// backend.ProverOption is func(*ProverConfig) error and HintFunctions is a plain map), i.e. the
// solver of gnark itself runs with a dishonest prover's choice for that hint.
func replaceHint(orig hint.Function, evil hint.Function) backend.ProverOption {
	return func(cfg *backend.ProverConfig) error {
		if cfg.HintFunctions == nil {
			cfg.HintFunctions = map[hint.ID]hint.Function{}
		}
		cfg.HintFunctions[hint.UUID(orig)] = evil
		return nil
	}
}

var nBitsHint = bits.NBits

func varsOf(xs []int) []frontend.Variable {
	out := make([]frontend.Variable, len(xs))
	for i, x := range xs {
		out[i] = x
	}
	return out
}
