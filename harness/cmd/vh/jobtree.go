package main

// C14, job-algebra leg: random trees of REAL server.SpawnJob / server.CombineJobs jobs over instrumented start / shutdown functions.
// Every verif hook of job.go and every leaf function boundary is written to an ndjson trace (one mutex, one sequence); TLC validates
// the trace against TraceJobTree.tla (JobTree.tla's actions and invariants).

import (
	"fmt"
	"math/rand"
	"os"
	"strings"
	"sync"
	"time"

	"worldcoin/gnark-mbu/server"
)

type jtShape struct {
	Nodes []string            `json:"nodes"`
	Kids  map[string][]string `json:"kids"` // inner nodes -> children in order
	Root  string              `json:"root"`
	Serve []string            `json:"serve"`
}

func init() {
	commands["jobtree"] = func(args []string) {
		var cs struct {
			Shape     jtShape `json:"shape"`
			Runs      int     `json:"runs"`
			TraceFile string  `json:"traceFile"`
			Twice     bool    `json:"twice"` // every other run calls RequestStop on the root a second time (recovering the panic)
		}
		loadCases(args, &cs)
		rng := rand.New(rand.NewSource(seed()))
		f, err := os.Create(cs.TraceFile)
		if err != nil {
			die("%v", err)
		}
		tw := &traceWriter{f: f}
		var mu sync.Mutex
		ident := map[string]string{} // stop channel address -> node
		server.VerifHook = func(ev string, a ...interface{}) {
			if !strings.HasPrefix(ev, "job.") || len(a) == 0 {
				return
			}
			mu.Lock()
			n, ok := ident[fmt.Sprintf("%p", a[0])]
			mu.Unlock()
			if ok {
				tw.emit(map[string]interface{}{"ev": ev, "n": n})
			}
		}
		defer func() { server.VerifHook = nil }()
		serve := map[string]bool{}
		for _, s := range cs.Shape.Serve {
			serve[s] = true
		}
		us := func(max int) time.Duration { return time.Duration(rng.Intn(max)) * time.Microsecond }
		for run := 0; run < cs.Runs; run++ {
			tw.emit(map[string]interface{}{"ev": "reset", "n": ""})
			mu.Lock()
			ident = map[string]string{}
			mu.Unlock()
			var build func(n string) server.RunningJob
			build = func(n string) server.RunningJob {
				var job server.RunningJob
				if kids, inner := cs.Shape.Kids[n]; inner {
					var js []server.RunningJob
					for _, k := range kids {
						js = append(js, build(k))
					}
					job = server.CombineJobs(js...)
				} else {
					called := make(chan struct{})
					d1, d2, d3 := us(400), us(400), us(300)
					isServe := serve[n]
					job = server.SpawnJob(func() {
						time.Sleep(d1)
						tw.emit(map[string]interface{}{"ev": "leaf.start.begin", "n": n})
						if isServe {
							<-called // ListenAndServe returns once Shutdown has been called
						}
						time.Sleep(d2)
						tw.emit(map[string]interface{}{"ev": "leaf.start.end", "n": n})
					}, func() {
						tw.emit(map[string]interface{}{"ev": "leaf.shutdown.begin", "n": n})
						close(called)
						time.Sleep(d3)
						tw.emit(map[string]interface{}{"ev": "leaf.shutdown.end", "n": n})
					})
				}
				// RunningJob{stop, closed}: the hooks identify a job by its stop channel
				mu.Lock()
				ident[strings.Fields(strings.Trim(fmt.Sprintf("%v", job), "{}"))[0]] = n
				mu.Unlock()
				return job
			}
			root := build(cs.Shape.Root)
			time.Sleep(us(900)) // stop lands before, during or after the start functions begin
			root.RequestStop()
			if cs.Twice && run%2 == 1 {
				time.Sleep(us(300))
				func() {
					defer func() {
						if p := recover(); p != nil {
							tw.emit(map[string]interface{}{"ev": "panic.caller", "n": cs.Shape.Root})
						}
					}()
					root.RequestStop()
				}()
			}
			done := make(chan struct{})
			go func() { root.AwaitStop(); close(done) }()
			select {
			case <-done:
				tw.emit(map[string]interface{}{"ev": "run.end", "n": cs.Shape.Root})
			case <-time.After(20 * time.Second):
				tw.emit(map[string]interface{}{"ev": "run.hang", "n": cs.Shape.Root})
				emit(Result{ID: fmt.Sprintf("jobtree/run%d", run), OK: false, Kind: "jobtree-hang", Detail: fmt.Sprintf("AwaitStop on the root of job tree %v did not return within 20 s of RequestStop", cs.Shape.Kids)})
				f.Close()
				return
			}
		}
		f.Close()
		emit(Result{ID: "jobtree", OK: true, Kind: "jobtree", Observed: map[string]int{"runs": cs.Runs, "events": tw.seq}})
	}
}
