package main

// Drivers for the proving-system file (C11, C15): KeysFile.tla behaviours executed on real files.

import (
	"bytes"
	"encoding/json"
	"fmt"
	"io"
	"math/big"
	"math/rand"
	"os"
	"os/exec"
	"path/filepath"
	"time"

	"github.com/consensys/gnark-crypto/ecc"
	"github.com/consensys/gnark/backend/groth16"
	"github.com/consensys/gnark/frontend"
	"github.com/consensys/gnark/frontend/cs/r1cs"
	"worldcoin/gnark-mbu/prover"
)

type sysSpec struct {
	ID    string `json:"id"`
	Kind  string `json:"kind"` // "synthetic" | "real"
	Mode  string `json:"mode"`
	Depth uint32 `json:"depth"`
	Batch uint32 `json:"batch"`
}

type tinyCircuit struct {
	X frontend.Variable
	Y frontend.Variable `gnark:",public"`
	n int
}

func (c *tinyCircuit) Define(api frontend.API) error {
	v := c.X
	for i := 0; i < c.n; i++ {
		v = api.Mul(v, c.X)
	}
	api.AssertIsEqual(v, c.Y)
	return nil
}

func buildSystem(s sysSpec) *prover.ProvingSystem {
	if s.Kind == "synthetic" {
		ccs, err := frontend.Compile(ecc.BN254.ScalarField(), r1cs.NewBuilder, &tinyCircuit{n: 2 + int(s.Depth)})
		if err != nil {
			die("tiny compile: %v", err)
		}
		pk, vk, err := groth16.Setup(ccs)
		if err != nil {
			die("tiny setup: %v", err)
		}
		return &prover.ProvingSystem{TreeDepth: s.Depth, BatchSize: s.Batch, ProvingKey: pk, VerifyingKey: vk, ConstraintSystem: ccs}
	}
	var ps *prover.ProvingSystem
	var err error
	if s.Mode == "insertion" {
		ps, err = prover.SetupInsertion(s.Depth, s.Batch)
	} else {
		ps, err = prover.SetupDeletion(s.Depth, s.Batch)
	}
	if err != nil {
		die("setup: %v", err)
	}
	return ps
}

func sectionLens(ps *prover.ProvingSystem, raw bool) []int {
	var a, b, c bytes.Buffer
	if raw {
		ps.ProvingKey.WriteRawTo(&a)
		ps.VerifyingKey.WriteRawTo(&b)
	} else {
		ps.ProvingKey.WriteTo(&a)
		ps.VerifyingKey.WriteTo(&b)
	}
	ps.ConstraintSystem.WriteTo(&c)
	return []int{8, a.Len(), b.Len(), c.Len()}
}

func writeSystem(ps *prover.ProvingSystem, raw bool, path string) (int64, error) {
	f, err := os.Create(path)
	if err != nil {
		return 0, err
	}
	defer f.Close()
	if raw {
		return ps.WriteRawTo(f)
	}
	return ps.WriteTo(f)
}

// same system? depth, batch and the byte-exact re-serialisation of pk, vk, cs
func sameSystem(a, b *prover.ProvingSystem) string {
	if a.TreeDepth != b.TreeDepth || a.BatchSize != b.BatchSize {
		return fmt.Sprintf("depth/batch %d/%d vs %d/%d", a.TreeDepth, a.BatchSize, b.TreeDepth, b.BatchSize)
	}
	la, lb := sectionBytes(a), sectionBytes(b)
	for i, name := range []string{"proving key", "verifying key", "constraint system"} {
		if !bytes.Equal(la[i], lb[i]) {
			return fmt.Sprintf("%s differs (%d vs %d bytes)", name, len(la[i]), len(lb[i]))
		}
	}
	return ""
}
func sectionBytes(ps *prover.ProvingSystem) [][]byte {
	var a, b, c bytes.Buffer
	ps.ProvingKey.WriteRawTo(&a)
	ps.VerifyingKey.WriteRawTo(&b)
	ps.ConstraintSystem.WriteTo(&c)
	return [][]byte{a.Bytes(), b.Bytes(), c.Bytes()}
}

// readPrefix: UnsafeReadFrom on data[:cut] under recover and a watchdog
func readPrefix(data []byte, cut int) (outcome string, detail string) {
	type res struct {
		err      error
		panicked interface{}
		ps       *prover.ProvingSystem
	}
	ch := make(chan res, 1)
	go func() {
		var r res
		defer func() {
			if p := recover(); p != nil {
				r.panicked = p
			}
			ch <- r
		}()
		ps := new(prover.ProvingSystem)
		_, r.err = ps.UnsafeReadFrom(bytes.NewReader(data[:cut]))
		r.ps = ps
	}()
	select {
	case r := <-ch:
		if r.panicked != nil {
			return "panic", fmt.Sprint(r.panicked)
		}
		if r.err != nil {
			return "error", r.err.Error()
		}
		return "loaded", ""
	case <-time.After(60 * time.Second):
		return "hang", "no result within 60 s"
	}
}

// readFile: ReadSystemFromFile under recover and a watchdog
func readFile(path string) (outcome string, detail string) {
	type res struct {
		err      error
		panicked interface{}
	}
	ch := make(chan res, 1)
	go func() {
		var r res
		defer func() {
			if p := recover(); p != nil {
				r.panicked = p
			}
			ch <- r
		}()
		_, r.err = prover.ReadSystemFromFile(path)
	}()
	select {
	case r := <-ch:
		if r.panicked != nil {
			return "panic", fmt.Sprint(r.panicked)
		}
		if r.err != nil {
			return "error", r.err.Error()
		}
		return "loaded", ""
	case <-time.After(60 * time.Second):
		return "hang", "no result within 60 s"
	}
}

func init() {
	// builds the systems, writes both formats into the scratch directory, reports the section lengths
	commands["keys-layout"] = func(args []string) {
		var cs struct {
			Systems []sysSpec `json:"systems"`
			Dir     string    `json:"dir"`
		}
		loadCases(args, &cs)
		for _, s := range cs.Systems {
			ps := buildSystem(s)
			out := map[string]interface{}{"id": s.ID}
			for _, f := range []string{"c", "r"} {
				path := filepath.Join(cs.Dir, fmt.Sprintf("keys-%s-%s.bin", s.ID, f))
				n, err := writeSystem(ps, f == "r", path)
				if err != nil {
					die("write: %v", err)
				}
				lens := sectionLens(ps, f == "r")
				if int64(lens[0]+lens[1]+lens[2]+lens[3]) != n {
					die("section lengths %v do not add up to the file size %d", lens, n)
				}
				out[f] = lens
				out["path_"+f] = path
			}
			b, _ := json.Marshal(out)
			fmt.Println(string(b))
		}
	}
	commands["c15"] = func(args []string) {
		var cs struct {
			Path  string `json:"path"`
			ID    string `json:"id"`
			Fmt   string `json:"fmt"`
			Total int    `json:"total"`
			Cuts  []int  `json:"cuts"`
			CLI   string `json:"cli"`
			NCLI  int    `json:"ncli"`
		}
		loadCases(args, &cs)
		data, err := os.ReadFile(cs.Path)
		if err != nil {
			die("%v", err)
		}
		if len(data) != cs.Total {
			die("file size %d, spec total %d", len(data), cs.Total)
		}
		// the complete file must load (otherwise rejections below mean nothing)
		if o, d := readPrefix(data, len(data)); o != "loaded" {
			emit(Result{ID: cs.ID + "/" + cs.Fmt + "/full", OK: false, Kind: "infra", Detail: "the complete file does not load: " + o + " " + d})
			return
		}
		bad := 0
		outcomes := map[string]int{}
		tmpf := cs.Path + ".cut"
		defer os.Remove(tmpf)
		// KeysFile.tla behaviours of the shape  write; read (ok); crash(cut); read (must fail)  in ONE process, as a service or tool that
		// loads a good file and later meets a truncated one: first a few prefixes in the cold process, then the complete file through
		// ReadSystemFromFile, then every cut
		for i := 0; i < 3 && i < len(cs.Cuts); i++ {
			cut := cs.Cuts[(i*len(cs.Cuts))/3]
			os.WriteFile(tmpf, data[:cut], 0o644)
			if o, d := readFile(tmpf); o != "error" {
				bad++
				emit(Result{ID: fmt.Sprintf("%s/%s/cold-cut%d", cs.ID, cs.Fmt, cut), OK: false, Kind: "truncated-read",
					Detail: fmt.Sprintf("ReadSystemFromFile on the first %d of %d bytes in a fresh process: %s %s — KeysFile.tla: a strict prefix never loads", cut, cs.Total, o, d),
					Case:   map[string]interface{}{"id": cs.ID, "fmt": cs.Fmt, "cuts": []int{cut}, "total": cs.Total}})
				// one accepted / panicking / hanging prefix in the cold process is a verdict; a hang has also left a stuck reader behind
				return
			}
		}
		if o, d := readFile(cs.Path); o != "loaded" {
			emit(Result{ID: cs.ID + "/" + cs.Fmt + "/full-file", OK: false, Kind: "infra", Detail: "ReadSystemFromFile does not load the complete file: " + o + " " + d})
			return
		}
		progress := cs.Path + ".progress"
		defer os.Remove(progress)
		for _, cut := range cs.Cuts {
			os.WriteFile(progress, []byte(fmt.Sprint(cut)), 0o644) // if a reader brings the whole process down, the driver knows at which offset
			o, d := readPrefix(data, cut)
			if o == "error" {
				// the same prefix as a FILE on disk, through ReadSystemFromFile (what start / prove / verify / convert-to-raw use)
				os.WriteFile(tmpf, data[:cut], 0o644)
				o, d = readFile(tmpf)
				if o != "error" {
					d = "ReadSystemFromFile: " + d
				}
			}
			outcomes[o]++
			if outcomes["hang"] >= 3 && o == "hang" {
				// each hang costs the watchdog's 60 s and leaves a stuck goroutine behind: three are evidence enough
				emit(Result{ID: fmt.Sprintf("%s/%s/cut%d", cs.ID, cs.Fmt, cut), OK: false, Kind: "truncated-read",
					Detail: fmt.Sprintf("reading the first %d of %d bytes: third hang in this job (%s), remaining cut offsets of the job not tried", cut, cs.Total, d),
					Case:   map[string]interface{}{"id": cs.ID, "fmt": cs.Fmt, "cuts": []int{cut}, "total": cs.Total}})
				break
			}
			if o != "error" && bad < 5 {
				bad++
				emit(Result{ID: fmt.Sprintf("%s/%s/cut%d", cs.ID, cs.Fmt, cut), OK: false, Kind: "truncated-read",
					Detail: fmt.Sprintf("reading the first %d of %d bytes: %s %s — KeysFile.tla: a strict prefix never loads", cut, cs.Total, o, d),
					Case:   map[string]interface{}{"id": cs.ID, "fmt": cs.Fmt, "cuts": []int{cut}, "total": cs.Total}})
			}
		}
		// ReadSystemFromFile and the CLI on truncated files
		tmp := cs.Path + ".trunc"
		for i := 0; i < cs.NCLI && i < len(cs.Cuts); i++ {
			cut := cs.Cuts[(i*7919)%len(cs.Cuts)]
			os.WriteFile(tmp, data[:cut], 0o644)
			if o, d := readFile(tmp); o != "error" {
				emit(Result{ID: fmt.Sprintf("%s/%s/file-cut%d", cs.ID, cs.Fmt, cut), OK: false, Kind: "truncated-read", Detail: fmt.Sprintf("ReadSystemFromFile on a file cut at %d of %d bytes: %s %s", cut, cs.Total, o, d),
					Case: map[string]interface{}{"id": cs.ID, "fmt": cs.Fmt, "cuts": []int{cut}, "total": cs.Total}})
			}
			if cs.CLI != "" {
				for _, cmdline := range [][]string{{"verify", "--mode", "deletion", "--keys-file", tmp, "--input-hash", "0x1"}, {"prove", "--mode", "deletion", "--keys-file", tmp},
					{"convert-to-raw", "--input", tmp, "--output", tmp + ".out"}, {"start", "--mode", "deletion", "--keys-file", tmp, "--prover-address", freeAddr(), "--metrics-address", freeAddr()}} {
					c := exec.Command(cs.CLI, cmdline...)
					c.Stdin = bytes.NewReader([]byte("{}"))
					done := make(chan error, 1)
					c.Start()
					go func() { done <- c.Wait() }()
					var werr error
					select {
					case werr = <-done:
					case <-time.After(90 * time.Second):
						c.Process.Kill()
						<-done
						emit(Result{ID: fmt.Sprintf("%s/%s/cli-%s-cut%d", cs.ID, cs.Fmt, cmdline[0], cut), OK: false, Kind: "truncated-read", Detail: fmt.Sprintf("`gnark-mbu %s` on a keys file cut at %d of %d bytes did not exit within 90 s (serving from / hanging on a truncated file)", cmdline[0], cut, cs.Total),
							Case: map[string]interface{}{"id": cs.ID, "fmt": cs.Fmt, "cuts": []int{cut}, "total": cs.Total}})
						continue
					}
					if werr == nil {
						emit(Result{ID: fmt.Sprintf("%s/%s/cli-%s-cut%d", cs.ID, cs.Fmt, cmdline[0], cut), OK: false, Kind: "truncated-read", Detail: fmt.Sprintf("`gnark-mbu %s` exits 0 on a keys file cut at %d of %d bytes", cmdline[0], cut, cs.Total),
							Case: map[string]interface{}{"id": cs.ID, "fmt": cs.Fmt, "cuts": []int{cut}, "total": cs.Total}})
					}
					os.Remove(tmp + ".out")
				}
			}
		}
		os.Remove(tmp)
		emit(Result{ID: cs.ID + "/" + cs.Fmt, OK: bad == 0, Kind: "truncated-summary", Observed: outcomes, Trivial: true})
	}
	// C11: KeysFile.tla behaviours (write / read / convert sequences over several systems) on real systems, in ONE process
	commands["c11"] = func(args []string) {
		var cs struct {
			Systems    []sysSpec                  `json:"systems"`
			Behaviours [][]map[string]interface{} `json:"behaviours"`
			Dir        string                     `json:"dir"`
			CLI        string                     `json:"cli"`
		}
		loadCases(args, &cs)
		rng := rand.New(rand.NewSource(seed()))
		orig := map[string]*prover.ProvingSystem{}
		spec := map[string]sysSpec{}
		for _, s := range cs.Systems {
			orig[s.ID] = buildSystem(s)
			spec[s.ID] = s
		}
		proveWith := func(ps *prover.ProvingSystem, s sysSpec) (*prover.Proof, *big.Int, error) {
			if s.Mode == "insertion" {
				p := randomValidInsertion(rng, int(s.Depth), int(s.Batch))
				pr, err := ps.ProveInsertion(p)
				return pr, &p.InputHash, err
			}
			p := randomValidDeletion(rng, int(s.Depth), int(s.Batch))
			pr, err := ps.ProveDeletion(p)
			return pr, &p.InputHash, err
		}
		verifyWith := func(ps *prover.ProvingSystem, s sysSpec, h *big.Int, pr *prover.Proof) error {
			if s.Mode == "insertion" {
				return ps.VerifyInsertion(*h, pr)
			}
			return ps.VerifyDeletion(*h, pr)
		}
		crossChecked := map[string]bool{}
		for bi, bh := range cs.Behaviours {
			r := Result{ID: fmt.Sprintf("behaviour%d", bi), OK: true, Kind: "keysfile"}
			fail := func(format string, a ...interface{}) {
				if r.OK {
					r.OK, r.Detail = false, fmt.Sprintf(format, a...)
					r.Case = map[string]interface{}{"systems": cs.Systems, "behaviours": [][]map[string]interface{}{bh}}
				}
			}
			path := func(name interface{}) string { return filepath.Join(cs.Dir, fmt.Sprintf("c11-%v.bin", name)) }
			// every behaviour starts from an empty file system
			if old, _ := filepath.Glob(filepath.Join(cs.Dir, "c11-*.bin")); old != nil {
				for _, o := range old {
					os.Remove(o)
				}
			}
			for oi, op := range bh {
				switch op["op"] {
				case "write":
					if _, err := writeSystem(orig[op["sys"].(string)], op["fmt"] == "r", path(op["file"])); err != nil {
						fail("op %d write: %v", oi, err)
					}
				case "link":
					// ln / ln -s: a second name for the same file
					os.Remove(path(op["to"]))
					var e error
					if op["kind"] == "sym" {
						e = os.Symlink(path(op["file"]), path(op["to"]))
					} else {
						e = os.Link(path(op["file"]), path(op["to"]))
					}
					if e != nil {
						die("link: %v", e)
					}
				case "read", "convert":
					var loaded *prover.ProvingSystem
					var err error
					if op["op"] == "convert" && cs.CLI != "" {
						// the real command: gnark-mbu convert-to-raw
						out, e := exec.Command(cs.CLI, "convert-to-raw", "--input", path(op["file"]), "--output", path(op["to"])).CombinedOutput()
						if (e == nil) != op["ok"].(bool) {
							fail("op %d: `convert-to-raw` exit ok=%v, spec says %v: %s", oi, e == nil, op["ok"], firstLine(string(out)))
						}
						if e == nil {
							loaded, err = prover.ReadSystemFromFile(path(op["to"]))
						} else {
							err = e
						}
					} else {
						loaded, err = prover.ReadSystemFromFile(path(op["file"]))
						if err == nil && op["op"] == "convert" {
							if _, werr := writeSystem(loaded, true, path(op["to"])); werr != nil {
								fail("op %d convert write: %v", oi, werr)
							}
							loaded, err = prover.ReadSystemFromFile(path(op["to"]))
						}
					}
					if (err == nil) != op["ok"].(bool) {
						fail("op %d %v(%v): loaded=%v, KeysFile.tla says ok=%v (%v)", oi, op["op"], op["file"], err == nil, op["ok"], err)
						continue
					}
					if err != nil {
						continue
					}
					sid := op["sys"].(string)
					if d := sameSystem(loaded, orig[sid]); d != "" {
						fail("op %d %v(%v): the reloaded system is not the system %s that was written: %s", oi, op["op"], op["file"], sid, d)
						continue
					}
					// interchangeability, once per (system, source format path)
					key := fmt.Sprint(sid, "/", op["op"], "/", bi%3)
					if !crossChecked[key] {
						crossChecked[key] = true
						pr, h, e := proveWith(loaded, spec[sid])
						if e != nil {
							fail("op %d: the reloaded system cannot prove: %v", oi, e)
						} else if e := verifyWith(orig[sid], spec[sid], h, pr); e != nil {
							fail("op %d: the original system rejects a proof made by the reloaded one: %v", oi, e)
						}
						pr2, h2, e2 := proveWith(orig[sid], spec[sid])
						if e2 != nil {
							die("original system cannot prove: %v", e2)
						} else if e := verifyWith(loaded, spec[sid], h2, pr2); e != nil {
							fail("op %d: the reloaded system rejects a proof made by the original: %v", oi, e)
						}
					}
				}
			}
			emit(r)
		}
	}
}

var _ = io.EOF
