// vh — conformance harness binding the TLA+ specifications in /verif/specs to the real code of
// worldcoin/semaphore-mtb (module worldcoin/gnark-mbu, replaced by /repo).  One sub-command per
// driver; every sub-command reads a JSON case file produced from TLC output (--cases) and prints
// one JSON object per case on stdout: {"id":…, "ok":bool, "observed":…, "expected":…, "detail":…}.
// Exit status 0 unless the driver itself failed (that is infrastructure trouble, not a verdict).
package main

import (
	"encoding/json"
	"fmt"
	gnarklogger "github.com/consensys/gnark/logger"
	"github.com/rs/zerolog"
	"os"
	"strconv"
	"worldcoin/gnark-mbu/logging"
)

type Result struct {
	ID       string      `json:"id"`
	OK       bool        `json:"ok"`
	Kind     string      `json:"kind,omitempty"`
	Expected interface{} `json:"expected,omitempty"`
	Observed interface{} `json:"observed,omitempty"`
	Detail   string      `json:"detail,omitempty"`
	Case     interface{} `json:"case,omitempty"`
	Trivial  bool        `json:"trivial,omitempty"`
}

var out = json.NewEncoder(os.Stdout)

func emit(r Result) { out.Encode(r) }

func die(format string, a ...interface{}) {
	fmt.Fprintf(os.Stderr, "vh: "+format+"\n", a...)
	os.Exit(3)
}

func casesArg(args []string) string {
	for i, a := range args {
		if a == "--cases" && i+1 < len(args) {
			return args[i+1]
		}
	}
	die("missing --cases")
	return ""
}

func loadCases(args []string, v interface{}) {
	b, err := os.ReadFile(casesArg(args))
	if err != nil {
		die("%v", err)
	}
	if err := json.Unmarshal(b, v); err != nil {
		die("bad case file: %v", err)
	}
}

func seed() int64 {
	s, err := strconv.ParseInt(os.Getenv("VERIF_SEED"), 10, 64)
	if err != nil {
		return 1
	}
	return s
}

var commands = map[string]func(args []string){}

func main() {
	gnarklogger.Disable()
	if os.Getenv("VERIF_LOG") == "" {
		*logging.Logger() = zerolog.Nop()
	}
	if len(os.Args) < 2 {
		die("usage: vh <command> --cases file")
	}
	f, ok := commands[os.Args[1]]
	if !ok {
		die("unknown command %s", os.Args[1])
	}
	f(os.Args[2:])
}
