package main

// Replay of MTB.tla behaviours (C01 insertion, C02 deletion) into the REAL circuits: every batch
// of a behaviour is concretised with the term interpreter and presented to
//   (a) prover.InsertionMbuCircuit / DeletionMbuCircuit in gnark's test engine,
//   (b) the R1CS returned by BuildR1CSInsertion / BuildR1CSDeletion, solved by gnark's solver,
//   (c) the same R1CS with DISHONEST hint functions (bit decomposition that truncates instead of
//       failing, is-zero inverse that lies),
// and the verdict must be the spec's `accept` in every case.

import (
	"encoding/json"
	"fmt"
	"math/big"

	"github.com/consensys/gnark/backend"
	"github.com/consensys/gnark/backend/hint"
)

type idxClass struct {
	Cls string `json:"cls"`
	Off int    `json:"off"`
	Val string `json:"val"`
}

// MTB.tla exports index CLASSES ({cls, off}, tiny-field model), MTBBig.tla exports the concrete natural as a decimal string
func (c *idxClass) UnmarshalJSON(b []byte) error {
	if len(b) > 0 && b[0] == '"' {
		c.Cls = "dec"
		return json.Unmarshal(b, &c.Val)
	}
	type plain idxClass
	return json.Unmarshal(b, (*plain)(c))
}

func (c idxClass) value() *big.Int {
	two32 := new(big.Int).Lsh(big.NewInt(1), 32)
	switch c.Cls {
	case "dec":
		return bigOf(c.Val)
	case "abs":
		return big.NewInt(int64(c.Off))
	case "idxmax":
		return new(big.Int).Sub(two32, big.NewInt(int64(1+c.Off)))
	case "idxover":
		return new(big.Int).Add(two32, big.NewInt(int64(c.Off)))
	case "wrap":
		return new(big.Int).Sub(bn254R, big.NewInt(int64(c.Off)))
	}
	die("bad index class %v", c)
	return nil
}

type mtbSlot struct {
	Idx   idxClass `json:"idx"`
	Item  string   `json:"item"`
	Proof []string `json:"proof"`
	Dev   []int    `json:"dev"`
}
type mtbOp struct {
	Batch struct {
		Mode  string    `json:"mode"`
		Start idxClass  `json:"start"`
		Pre   string    `json:"pre"`
		Slots []mtbSlot `json:"slots"`
	} `json:"batch"`
	Post    string `json:"post"`
	Accept  bool   `json:"accept"`
	Applied bool   `json:"applied"`
}
type mtbBehaviour struct {
	Depth     int     `json:"depth"`
	BatchSize int     `json:"batchSize"`
	Ops       []mtbOp `json:"ops"`
}
type mtbCases struct {
	Behaviours []mtbBehaviour `json:"behaviours"`
	R1CS       bool           `json:"r1cs"`
	Only       string         `json:"only"` // "insertion" | "deletion" | "" : which batches to judge
	LastOnly   bool           `json:"lastOnly"`
}

var two32 = new(big.Int).Lsh(big.NewInt(1), 32)

func (op *mtbOp) witness(it *interp, depth, batch int) *fullWitness {
	w := &fullWitness{Mode: op.Batch.Mode, Depth: depth, Batch: batch, Pre: it.eval(op.Batch.Pre), Post: it.eval(op.Post)}
	w.Start = op.Batch.Start.value()
	for _, s := range op.Batch.Slots {
		w.Ids = append(w.Ids, it.eval(s.Item))
		w.Proofs = append(w.Proofs, it.evalAll(s.Proof))
		w.Indices = append(w.Indices, s.Idx.value())
	}
	// the public input: Keccak of the on-chain packing of the (reduced) values; an index that does not fit
	// 32 bits has no packing — the low 32 bits are used, the circuit must reject whatever the hash is
	var data []byte
	be32 := func(v *big.Int) []byte {
		b := make([]byte, 4)
		new(big.Int).Mod(v, two32).FillBytes(b)
		return b
	}
	if w.Mode == "insertion" {
		data = append(data, be32(w.Start)...)
		data = append(data, pad32(fe(w.Pre))...)
		data = append(data, pad32(fe(w.Post))...)
		for _, id := range w.Ids {
			data = append(data, pad32(fe(id))...)
		}
	} else {
		for _, ix := range w.Indices {
			data = append(data, be32(ix)...)
		}
		data = append(data, pad32(fe(w.Pre))...)
		data = append(data, pad32(fe(w.Post))...)
	}
	w.Hash = new(big.Int).SetBytes(keccak256(data))
	return w
}

// dishonest hint tables
func evilNBits(_ *big.Int, inputs []*big.Int, results []*big.Int) error {
	// a prover that does not give up when the value does not fit: supplies the low digits
	for i := range results {
		results[i].SetUint64(uint64(inputs[0].Bit(i)))
	}
	return nil
}
func evilInvZeroAlwaysZero(_ *big.Int, inputs []*big.Int, results []*big.Int) error {
	results[0].SetUint64(0) // claims "is zero" for everything (m = 1 - a*0 = 1)
	return nil
}
func evilInvZeroOne(_ *big.Int, inputs []*big.Int, results []*big.Int) error {
	results[0].SetUint64(1)
	return nil
}

func dishonestTables() map[string][]backend.ProverOption {
	return map[string][]backend.ProverOption{
		"truncating-bits":  {replaceHint(nBitsHint, evilNBits)},
		"iszero-inverse-0": {replaceHint(hint.InvZero, evilInvZeroAlwaysZero), replaceHint(nBitsHint, evilNBits)},
		"iszero-inverse-1": {replaceHint(hint.InvZero, evilInvZeroOne)},
	}
}

func init() {
	commands["mtb"] = func(args []string) {
		var cs mtbCases
		loadCases(args, &cs)
		it := newInterp(fmt.Sprint("mtb/", seed()))
		tables := dishonestTables()
		for bi, bh := range cs.Behaviours {
			for oi := range bh.Ops {
				op := &bh.Ops[oi]
				if cs.Only != "" && op.Batch.Mode != cs.Only {
					continue
				}
				if cs.LastOnly && oi != len(bh.Ops)-1 {
					continue
				}
				id := fmt.Sprintf("d%d-b%d/behaviour%d/op%d/%s", bh.Depth, bh.BatchSize, bi, oi, op.Batch.Mode)
				w := op.witness(it, bh.Depth, bh.BatchSize)
				r := Result{ID: id, OK: true, Kind: "mtb", Expected: op.Accept}
				obs := map[string]bool{}
				e1 := w.engineAccepts()
				obs["engine"] = e1 == nil
				if (e1 == nil) != op.Accept {
					r.OK = false
					r.Detail = fmt.Sprintf("test engine: circuit accepts=%v, MTB.tla says %v", e1 == nil, op.Accept)
					if e1 != nil {
						r.Detail += " (" + firstLine(e1.Error()) + ")"
					}
				}
				if cs.R1CS {
					e2 := w.r1csAccepts()
					obs["r1cs"] = e2 == nil
					if (e2 == nil) != op.Accept && r.OK {
						r.OK = false
						r.Detail = fmt.Sprintf("compiled R1CS, honest hints: satisfiable=%v, MTB.tla says %v", e2 == nil, op.Accept)
						if e2 != nil {
							r.Detail += " (" + firstLine(e2.Error()) + ")"
						}
					}
					if !op.Accept {
						for name, opts := range tables {
							e3 := w.r1csAccepts(opts...)
							obs["r1cs/"+name] = e3 == nil
							if e3 == nil && r.OK {
								r.OK = false
								r.Detail = "compiled R1CS with dishonest hints (" + name + ") is SATISFIED for a batch MTB.tla says is invalid"
							}
						}
					}
				}
				r.Observed = obs
				if !r.OK {
					r.Case = map[string]interface{}{"behaviours": []mtbBehaviour{{Depth: bh.Depth, BatchSize: bh.BatchSize, Ops: []mtbOp{*op}}}, "r1cs": cs.R1CS}
				}
				if op.Accept {
					r.Trivial = false
				}
				emit(r)
			}
		}
	}
}
