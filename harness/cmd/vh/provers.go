package main

import (
	"fmt"
	"math/big"
	"math/rand"
	"os"
	"path/filepath"

	"worldcoin/gnark-mbu/poseidon_tree"
	"worldcoin/gnark-mbu/prover"
)

// setupCached: a real Groth16 setup per (mode, depth, batch), cached on disk inside the CHECK'S OWN
// scratch directory (VERIF_SCRATCH) so that several harness invocations of one check share it.
// It is rebuilt from the working tree on every check run.
func setupCached(mode string, depth, batch uint32) *prover.ProvingSystem {
	dir := os.Getenv("VERIF_SCRATCH")
	path := ""
	if dir != "" {
		path = filepath.Join(dir, fmt.Sprintf("keys-%s-%d-%d.ps", mode, depth, batch))
		if _, err := os.Stat(path); err == nil {
			ps, err := prover.ReadSystemFromFile(path)
			if err == nil {
				return ps
			}
		}
	}
	var ps *prover.ProvingSystem
	var err error
	if mode == "insertion" {
		ps, err = prover.SetupInsertion(depth, batch)
	} else {
		ps, err = prover.SetupDeletion(depth, batch)
	}
	if err != nil {
		die("setup %s %d %d: %v", mode, depth, batch, err)
	}
	if path != "" {
		f, err := os.Create(path + ".tmp")
		if err == nil {
			_, err = ps.WriteRawTo(f)
			f.Close()
			if err == nil {
				os.Rename(path+".tmp", path)
			}
		}
	}
	return ps
}

// randomValidInsertion builds a valid insertion batch on a tree with a random history.
func randomValidInsertion(rng *rand.Rand, depth, batch int) *prover.InsertionParameters {
	if batch > 1<<depth {
		die("randomValidInsertion: batch %d does not fit a tree of depth %d", batch, depth)
	}
	tree := poseidon_tree.NewTree(depth)
	n := 1 << depth
	maxStart := n - batch
	start := 0
	if maxStart > 0 {
		start = rng.Intn(maxStart + 1)
	}
	for i := 0; i < start; i++ {
		tree.Update(i, *randField(rng))
	}
	p := &prover.InsertionParameters{StartIndex: uint32(start)}
	p.PreRoot = tree.Root()
	p.IdComms = make([]big.Int, batch)
	p.MerkleProofs = make([][]big.Int, batch)
	for i := 0; i < batch; i++ {
		p.IdComms[i] = *randField(rng)
		p.MerkleProofs[i] = tree.Update(start+i, p.IdComms[i])
	}
	p.PostRoot = tree.Root()
	p.InputHash = *refInputHashInsertion(p)
	return p
}

// randomValidInsertion2: the tree history and the start index come from stateRng, the commitments from itemRng — two calls with
// equal stateRng seeds give different valid batches on the SAME tree state
func randomValidInsertion2(stateRng, itemRng *rand.Rand, depth, batch int) *prover.InsertionParameters {
	tree := poseidon_tree.NewTree(depth)
	n := 1 << depth
	maxStart := n - batch
	start := 0
	if maxStart > 0 {
		start = stateRng.Intn(maxStart + 1)
	}
	for i := 0; i < start; i++ {
		tree.Update(i, *randField(stateRng))
	}
	p := &prover.InsertionParameters{StartIndex: uint32(start)}
	p.PreRoot = tree.Root()
	p.IdComms = make([]big.Int, batch)
	p.MerkleProofs = make([][]big.Int, batch)
	for i := 0; i < batch; i++ {
		p.IdComms[i] = *randField(itemRng)
		p.MerkleProofs[i] = tree.Update(start+i, p.IdComms[i])
	}
	p.PostRoot = tree.Root()
	p.InputHash = *refInputHashInsertion(p)
	return p
}

func randomValidDeletion(rng *rand.Rand, depth, batch int) *prover.DeletionParameters {
	tree := poseidon_tree.NewTree(depth)
	n := 1 << depth
	leaves := make([]*big.Int, n)
	for i := 0; i < n; i++ {
		leaves[i] = randField(rng)
		tree.Update(i, *leaves[i])
	}
	p := &prover.DeletionParameters{}
	p.PreRoot = tree.Root()
	p.DeletionIndices = make([]uint32, batch)
	p.IdComms = make([]big.Int, batch)
	p.MerkleProofs = make([][]big.Int, batch)
	perm := rng.Perm(n)
	for i := 0; i < batch; i++ {
		if i < n && rng.Intn(4) != 0 {
			idx := perm[i]
			p.DeletionIndices[i] = uint32(idx)
			p.IdComms[i] = *leaves[idx]
			p.MerkleProofs[i] = tree.Update(idx, *big.NewInt(0))
		} else { // padding slot
			p.DeletionIndices[i] = uint32(n + rng.Intn(n))
			p.IdComms[i] = *randField(rng)
			p.MerkleProofs[i] = make([]big.Int, depth)
			for j := range p.MerkleProofs[i] {
				p.MerkleProofs[i][j] = *randField(rng)
			}
		}
	}
	p.PostRoot = tree.Root()
	p.InputHash = *refInputHashDeletion(p)
	return p
}

func randField(rng *rand.Rand) *big.Int {
	return new(big.Int).Rand(rng, bn254R)
}
