package main

import (
	"encoding/binary"
	"math/big"

	"golang.org/x/crypto/sha3"
	"worldcoin/gnark-mbu/prover"
)

// Independent reference of the on-chain packing (abi.encodePacked) + Keccak-256, used by drivers
// that need a correct input hash for a batch without going through the code under test, and to
// cross-check the spec's own Keccak (spec bug => exit 2).
func pad32(v *big.Int) []byte {
	b := make([]byte, 32)
	v.FillBytes(b)
	return b
}

func keccak256(data []byte) []byte {
	h := sha3.NewLegacyKeccak256()
	h.Write(data)
	return h.Sum(nil)
}

func packInsertion(p *prover.InsertionParameters) []byte {
	var data []byte
	var idx [4]byte
	binary.BigEndian.PutUint32(idx[:], p.StartIndex)
	data = append(data, idx[:]...)
	data = append(data, pad32(&p.PreRoot)...)
	data = append(data, pad32(&p.PostRoot)...)
	for i := range p.IdComms {
		data = append(data, pad32(&p.IdComms[i])...)
	}
	return data
}

func packDeletion(p *prover.DeletionParameters) []byte {
	var data []byte
	for _, i := range p.DeletionIndices {
		var idx [4]byte
		binary.BigEndian.PutUint32(idx[:], i)
		data = append(data, idx[:]...)
	}
	data = append(data, pad32(&p.PreRoot)...)
	data = append(data, pad32(&p.PostRoot)...)
	return data
}

func refInputHashInsertion(p *prover.InsertionParameters) *big.Int {
	return new(big.Int).SetBytes(keccak256(packInsertion(p)))
}

func refInputHashDeletion(p *prover.DeletionParameters) *big.Int {
	return new(big.Int).SetBytes(keccak256(packDeletion(p)))
}
