package main

// C14, command-line leg: `gnark-mbu start` (built with the verif tag from the working tree) is run as
// a subprocess with VERIF_TRACE_FILE / VERIF_HOLD, k requests are put in flight and held at a
// chosen handler hook, SIGINT is delivered, and the harness checks: every in-flight request gets
// its complete, valid response; exit status 0; both addresses bindable immediately after exit.
// The process's own hook trace is normalised and validated by TLC against TraceJob.tla.

import (
	"bufio"
	"bytes"
	"encoding/json"
	"fmt"
	"net"
	"os"
	"os/exec"
	"path/filepath"
	"strings"
	"sync"
	"syscall"
	"time"
)

type sigintScenario struct {
	K      int       `json:"k"`    // requests in flight when SIGINT is sent
	Hold   string    `json:"hold"` // hook at which requests are held ("" = none)
	HoldMs int       `json:"holdMs"`
	Kinds  []reqKind `json:"kinds"`
	After  bool      `json:"after"` // send SIGINT only after all responses arrived
	// Signals > 1: the operator (or a supervisor) repeats the interrupt while the service drains; a repeated stop request is
	// still a stop request, the drain must complete all the same
	Signals int `json:"signals"`
}

func countLines(path, needle string) int {
	f, err := os.Open(path)
	if err != nil {
		return 0
	}
	defer f.Close()
	n := 0
	sc := bufio.NewScanner(f)
	sc.Buffer(make([]byte, 1<<20), 1<<20)
	for sc.Scan() {
		if strings.Contains(sc.Text(), needle) {
			n++
		}
	}
	return n
}

func init() {
	commands["srv-sigint"] = func(args []string) {
		var cs struct {
			CLI       string           `json:"cli"`
			Mode      string           `json:"mode"`
			Depth     uint32           `json:"depth"`
			Batch     uint32           `json:"batch"`
			Dir       string           `json:"dir"`
			Scenarios []sigintScenario `json:"scenarios"`
		}
		loadCases(args, &cs)
		w := newWorld(cs.Mode, cs.Depth, cs.Batch)
		keys := filepath.Join(os.Getenv("VERIF_SCRATCH"), fmt.Sprintf("keys-%s-%d-%d.ps", cs.Mode, cs.Depth, cs.Batch))
		if _, err := os.Stat(keys); err != nil {
			die("keys file %s missing", keys)
		}
		for si, sc := range cs.Scenarios {
			id := fmt.Sprintf("sigint%d/k=%d/hold=%s/after=%v/signals=%d", si, sc.K, sc.Hold, sc.After, max(sc.Signals, 1))
			r := Result{ID: id, OK: true, Kind: "sigint"}
			fail := func(format string, a ...interface{}) {
				if r.OK {
					r.OK, r.Detail = false, fmt.Sprintf(format, a...)
				}
			}
			raw := filepath.Join(cs.Dir, fmt.Sprintf("sigint-%d.raw.ndjson", si))
			norm := filepath.Join(cs.Dir, fmt.Sprintf("sigint-%d.ndjson", si))
			os.Remove(raw)
			pa, ma := freeAddr(), freeAddr()
			cmd := exec.Command(cs.CLI, "start", "--mode", cs.Mode, "--keys-file", keys, "--prover-address", pa, "--metrics-address", ma)
			cmd.Env = append(os.Environ(), "VERIF_TRACE_FILE="+raw)
			if sc.Hold != "" {
				cmd.Env = append(cmd.Env, fmt.Sprintf("VERIF_HOLD=%s:%d", sc.Hold, sc.HoldMs))
			}
			var stderr bytes.Buffer
			cmd.Stderr = &stderr
			if err := cmd.Start(); err != nil {
				die("start: %v", err)
			}
			exited := make(chan error, 1)
			go func() { exited <- cmd.Wait() }()
			// the property presupposes a started server: wait until both endpoints answer (the handler for SIGINT is installed right after Run)
			up := false
			for i := 0; i < 3000; i++ {
				if s := scrapeMetrics(ma); s.OK {
					if a := w.send(pa, "GET", nil, nil); a.Err == "" {
						up = true
						break
					}
				}
				select {
				case err := <-exited:
					die("gnark-mbu start exited early: %v %s", err, stderr.String())
				default:
				}
				time.Sleep(10 * time.Millisecond)
			}
			if !up {
				cmd.Process.Kill()
				die("gnark-mbu start did not come up: %s", stderr.String())
			}
			time.Sleep(50 * time.Millisecond)
			ids := make([]string, sc.K)
			reqs := map[string]*builtReq{}
			kinds := map[string]reqKind{}
			var all []*builtReq
			for i := 0; i < sc.K; i++ {
				ids[i] = fmt.Sprintf("c%d", i+1)
				k := reqKind{Method: "POST", Body: "valid"}
				if i < len(sc.Kinds) {
					k = sc.Kinds[i]
				}
				kinds[ids[i]] = k
				reqs[ids[i]] = w.build(k)
				all = append(all, reqs[ids[i]])
			}
			var wg sync.WaitGroup
			results := make([]clientResult, sc.K)
			for i := 0; i < sc.K; i++ {
				wg.Add(1)
				go func(i int) {
					defer wg.Done()
					results[i] = w.doRequest(pa, ids[i], reqs[ids[i]], all)
				}(i)
			}
			if sc.After {
				wg.Wait()
			} else if sc.K > 0 {
				// in flight confirmed twice: every request has passed handler entry (hook trace) and the gauge shows them
				dl := time.Now().Add(30 * time.Second)
				for time.Now().Before(dl) {
					n := 0
					for _, id := range ids {
						n += countLines(raw, `"ev":"prove.enter","seq"`) * 0
						if countLines(raw, `["`+id+`"`) > 0 {
							n++
						}
					}
					if n == sc.K && scrapeMetrics(ma).Inflight >= sc.K {
						break
					}
					time.Sleep(5 * time.Millisecond)
				}
			}
			cmd.Process.Signal(syscall.SIGINT)
			for extra := 1; extra < sc.Signals; extra++ {
				time.Sleep(60 * time.Millisecond)
				cmd.Process.Signal(syscall.SIGINT) // error if the process has already gone: nothing to repeat then
			}
			wg.Wait()
			var exitErr error
			select {
			case exitErr = <-exited:
			case <-time.After(90 * time.Second):
				cmd.Process.Kill()
				<-exited
				fail("the process did not exit within 90 s after SIGINT (stop/wait deadlock)")
			}
			// both addresses must be bindable right now
			for _, a := range []string{pa, ma} {
				l, err := net.Listen("tcp", a)
				if err != nil {
					fail("address %s cannot be bound right after the process exited: %v", a, err)
				} else {
					l.Close()
				}
			}
			if exitErr != nil {
				fail("exit status is not 0: %v; stderr tail: %s", exitErr, tailStr(stderr.String(), 300))
			}
			for i := 0; i < sc.K; i++ {
				b, cr := reqs[ids[i]], results[i]
				if cr.Err != "" || cr.Status != b.expStat || (b.expStat != 405 && cr.Code != b.expCode) || (b.expStat == 200 && !cr.ProofOK) {
					fail("request %s (%s %s) was in flight when SIGINT arrived and did not receive its full response: status=%d code=%s err=%q %s", ids[i], kinds[ids[i]].Method, kinds[ids[i]].Body, cr.Status, cr.Code, cr.Err, cr.Detail)
				}
			}
			// normalise the process's trace for TraceJob.tla
			nf, _ := os.Create(norm)
			hdr, _ := json.Marshal(map[string]interface{}{"ev": "header", "who": "", "arg": "", "reqs": kinds})
			nf.Write(append(hdr, '\n'))
			labels := map[string]string{}
			nstop := 0
			if f, err := os.Open(raw); err == nil {
				scn := bufio.NewScanner(f)
				scn.Buffer(make([]byte, 1<<20), 1<<20)
				for scn.Scan() {
					var e struct {
						Ev   string   `json:"ev"`
						Args []string `json:"args"`
					}
					if json.Unmarshal(scn.Bytes(), &e) != nil {
						continue
					}
					who, arg := "", ""
					switch {
					case strings.HasPrefix(e.Ev, "job."):
						if len(e.Args) > 0 {
							if l, ok := labels[e.Args[0]]; ok {
								who = l
							} else if e.Ev == "job.request_stop" {
								who = []string{"c", "m", "p", "x"}[min(nstop, 3)]
								nstop++
								labels[e.Args[0]] = who
							} else {
								who = "?"
							}
						}
					case strings.HasPrefix(e.Ev, "srv."):
						if len(e.Args) > 0 && strings.HasPrefix(e.Args[0], "metrics") {
							who = "m"
						} else {
							who = "p"
						}
						if len(e.Args) > 1 {
							arg = e.Args[1]
						}
					case strings.HasPrefix(e.Ev, "prove."):
						if len(e.Args) > 0 {
							who = e.Args[0]
						}
						if len(e.Args) > 1 {
							arg = e.Args[1]
						}
					}
					b, _ := json.Marshal(map[string]interface{}{"ev": e.Ev, "who": who, "arg": arg})
					nf.Write(append(b, '\n'))
				}
				f.Close()
			}
			if exitErr == nil {
				b, _ := json.Marshal(map[string]interface{}{"ev": "exit", "who": "", "arg": "0"})
				nf.Write(append(b, '\n'))
			}
			nf.Close()
			r.Observed = map[string]interface{}{"trace": norm, "k": sc.K, "responses": results}
			if !r.OK {
				r.Case = map[string]interface{}{"mode": cs.Mode, "depth": cs.Depth, "batch": cs.Batch, "scenarios": []sigintScenario{sc}}
			}
			emit(r)
		}
	}
}

func tailStr(s string, n int) string {
	if len(s) > n {
		return s[len(s)-n:]
	}
	return s
}
