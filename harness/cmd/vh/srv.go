package main

// In-process driver for server.Run with the verif hooks turned into a recorder and into gates.
// Used by the gated schedule replay of Server.tla behaviours (C13, C14, C20) and by the
// un-gated stress drivers whose recorded traces are validated by TLC (TraceServer.tla).

import (
	"bytes"
	"encoding/json"
	"fmt"
	"io"
	"math/big"
	"math/rand"
	"net"
	"net/http"
	"os"
	"path/filepath"
	"regexp"
	"sort"
	"strconv"
	"strings"
	"sync"
	"time"

	"worldcoin/gnark-mbu/prover"
	"worldcoin/gnark-mbu/server"
)

type hookEvent struct {
	Seq  int    `json:"seq"`
	Ev   string `json:"ev"`
	Who  string `json:"who"`
	Arg  string `json:"arg,omitempty"`
	Gate bool   `json:"gated,omitempty"`
}

type gatekeeper struct {
	mu       sync.Mutex
	seq      int
	events   []hookEvent
	waiting  map[string]chan struct{}
	gated    map[string]bool // keys that block; nil = record only
	gateAll  bool
	jobLabel map[interface{}]string
	nReqStop int
	open     bool // true: all gates open (drain)
}

func newGatekeeper() *gatekeeper {
	return &gatekeeper{waiting: map[string]chan struct{}{}, jobLabel: map[interface{}]string{}}
}

func (g *gatekeeper) keyOf(ev string, args []interface{}) (who, extra string) {
	switch {
	case strings.HasPrefix(ev, "job."):
		if len(args) > 0 {
			ch := args[0]
			if l, ok := g.jobLabel[ch]; ok {
				who = l
			} else if ev == "job.request_stop" {
				// Run's combined job is stopped first; its waiter then stops the metrics job and the prover job in that order
				who = []string{"c", "m", "p", "x3", "x4", "x5"}[min(g.nReqStop, 5)]
				g.nReqStop++
				g.jobLabel[ch] = who
			} else {
				who = "?"
			}
		}
	case strings.HasPrefix(ev, "srv."):
		if len(args) > 0 {
			if s, _ := args[0].(string); strings.HasPrefix(s, "metrics") {
				who = "m"
			} else {
				who = "p"
			}
		}
		if len(args) > 1 {
			if e, ok := args[1].(error); ok && e != nil {
				extra = e.Error()
			}
		}
	case strings.HasPrefix(ev, "prove."):
		if len(args) > 0 {
			if r, ok := args[0].(*http.Request); ok {
				who = r.Header.Get("X-Verif-Req")
			}
		}
		if len(args) > 1 {
			switch v := args[1].(type) {
			case int:
				extra = strconv.Itoa(v)
			case error:
				if v != nil {
					extra = "err"
				} else {
					extra = "ok"
				}
			}
		}
	}
	return
}

func (g *gatekeeper) hook(ev string, args ...interface{}) {
	g.mu.Lock()
	who, extra := g.keyOf(ev, args)
	key := ev + "#" + who
	block := !g.open && g.gated != nil && g.gated[key]
	var ch chan struct{}
	if block {
		ch = make(chan struct{})
		g.waiting[key] = ch
		g.mu.Unlock()
		<-ch
		g.mu.Lock()
	}
	// the event is recorded when the goroutine PASSES the hook: file order = a real interleaving
	g.seq++
	g.events = append(g.events, hookEvent{Seq: g.seq, Ev: ev, Who: who, Arg: extra, Gate: block})
	g.mu.Unlock()
}

func (g *gatekeeper) waitingSet() []string {
	g.mu.Lock()
	defer g.mu.Unlock()
	out := make([]string, 0, len(g.waiting))
	for k := range g.waiting {
		out = append(out, k)
	}
	sort.Strings(out)
	return out
}

func (g *gatekeeper) release(key string) bool {
	g.mu.Lock()
	ch, ok := g.waiting[key]
	if ok {
		delete(g.waiting, key)
	}
	g.mu.Unlock()
	if ok {
		close(ch)
	}
	return ok
}

func (g *gatekeeper) openAll() {
	g.mu.Lock()
	g.open = true
	chs := g.waiting
	g.waiting = map[string]chan struct{}{}
	g.mu.Unlock()
	for _, ch := range chs {
		close(ch)
	}
}

func (g *gatekeeper) snapshot() []hookEvent {
	g.mu.Lock()
	defer g.mu.Unlock()
	return append([]hookEvent(nil), g.events...)
}

// freeAddr hands out loopback addresses from a PRIVATE port range below the kernel's ephemeral range
// (so that neither outgoing connections nor other processes' ":0" binds can take the port between
// the probe and the server's own bind), spread by process id, each probed once before use.
var portCursor = 0

// reservePort: cross-process reservation through an exclusive lock file (several harness processes of one check, or of several
// checks, run in parallel); reservations older than 15 minutes are considered abandoned
func reservePort(port int) bool {
	dir := filepath.Join(os.TempDir(), "verif-ports")
	os.MkdirAll(dir, 0o777)
	p := filepath.Join(dir, strconv.Itoa(port))
	if st, err := os.Stat(p); err == nil && time.Since(st.ModTime()) > 15*time.Minute {
		os.Remove(p)
	}
	f, err := os.OpenFile(p, os.O_CREATE|os.O_EXCL|os.O_WRONLY, 0o666)
	if err != nil {
		return false
	}
	fmt.Fprint(f, os.Getpid())
	f.Close()
	return true
}

func freeAddr() string {
	base := 10000 + (os.Getpid()*997)%18000
	for tries := 0; tries < 8000; tries++ {
		port := 10000 + (base-10000+portCursor)%20000
		portCursor++
		if !reservePort(port) {
			continue
		}
		a := fmt.Sprintf("127.0.0.1:%d", port)
		l, err := net.Listen("tcp", a)
		if err != nil {
			continue
		}
		l.Close()
		return a
	}
	die("no free port in the private range")
	return ""
}

// ---------------------------------------------------------------- requests and their oracles

type reqKind struct {
	Method string `json:"method"`
	Body   string `json:"body"`
}

type builtReq struct {
	kind    reqKind
	body    []byte
	hash    *big.Int // input hash of a valid batch
	expStat int
	expCode string
	// framing of the request on the wire; the meaning of the document does not depend on it: "" = Content-Length,
	// "chunked" = Transfer-Encoding: chunked (length unknown to the server), "padded" = the document followed by more than 1 MiB of JSON
	// whitespace (a large upload)
	framing string
}

type srvWorld struct {
	mode         string
	depth, batch uint32
	ps           *prover.ProvingSystem
	rng          *rand.Rand
	// shared != nil: every request of the current behaviour/round is stated against the SAME tree state (same pre-root, same
	// start index for insertion) and differs only in what it writes — the situation of several batchers racing on one contract state
	shared     *rand.Rand
	sharedSeed int64
	chunked    bool // the next request is framed with Transfer-Encoding: chunked (set by classBody)
}

// newRound starts a new group of requests; with probability 1/2 they share the tree state
func (w *srvWorld) newRound() {
	w.shared = nil
	if w.rng.Intn(2) == 0 {
		w.sharedSeed = w.rng.Int63()
	} else {
		w.sharedSeed = 0
	}
}

// stateRng: the generator that builds the tree history (shared across the round when sharedSeed != 0)
func (w *srvWorld) stateRng() *rand.Rand {
	if w.sharedSeed != 0 {
		return rand.New(rand.NewSource(w.sharedSeed))
	}
	return w.rng
}

func newWorld(mode string, depth, batch uint32) *srvWorld {
	return &srvWorld{mode: mode, depth: depth, batch: batch, ps: setupCached(mode, depth, batch), rng: rand.New(rand.NewSource(seed()))}
}

func (w *srvWorld) validParams() (js []byte, hash *big.Int) {
	if w.mode == "insertion" {
		p := randomValidInsertion2(w.stateRng(), w.rng, int(w.depth), int(w.batch))
		js, _ = json.Marshal(p)
		return js, new(big.Int).Set(&p.InputHash)
	}
	p := randomValidDeletion(w.rng, int(w.depth), int(w.batch))
	js, _ = json.Marshal(p)
	return js, new(big.Int).Set(&p.InputHash)
}

func (w *srvWorld) unsatParams() []byte {
	// a well-formed document of the right dimensions whose post-root is wrong (hash recomputed so that
	// only the tree relation fails)
	if w.mode == "insertion" {
		p := randomValidInsertion2(w.stateRng(), w.rng, int(w.depth), int(w.batch))
		p.PostRoot = *new(big.Int).Mod(new(big.Int).Add(&p.PostRoot, big.NewInt(1)), bn254R)
		p.InputHash = *refInputHashInsertion(p)
		js, _ := json.Marshal(p)
		return js
	}
	p := randomValidDeletion(w.rng, int(w.depth), int(w.batch))
	p.PostRoot = *new(big.Int).Mod(new(big.Int).Add(&p.PostRoot, big.NewInt(1)), bn254R)
	p.InputHash = *refInputHashDeletion(p)
	js, _ := json.Marshal(p)
	return js
}

func (w *srvWorld) build(k reqKind) *builtReq {
	b := &builtReq{kind: k}
	switch {
	case k.Method != "POST":
		b.expStat, b.expCode = 405, ""
	case k.Body == "malformed":
		b.body = []byte(`{"inputHash":"0x1","preRoot":`)
		b.expStat, b.expCode = 400, "malformed_body"
	case k.Body == "huge":
		// an over-long body that is not a parameter document (9 MiB): still a /prove request, still answered 400 malformed_body
		b.body = bytes.Repeat([]byte("x"), 9<<20)
		b.expStat, b.expCode = 400, "malformed_body"
	case k.Body == "unsat":
		b.body = w.unsatParams()
		b.expStat, b.expCode = 400, "proving_error"
	default:
		b.body, b.hash = w.validParams()
		b.expStat, b.expCode = 200, "proof"
	}
	return b
}

type clientResult struct {
	Done    bool   `json:"done"`
	Err     string `json:"err,omitempty"`
	Status  int    `json:"status"`
	Code    string `json:"code"`
	ProofOK bool   `json:"proof_ok"`
	Detail  string `json:"detail,omitempty"`
}

// doRequest sends one request and classifies the answer against the request's OWN oracle.
func (w *srvWorld) doRequest(addr, id string, b *builtReq, others []*builtReq) clientResult {
	tr := &http.Transport{DisableKeepAlives: true, ExpectContinueTimeout: 10 * time.Second}
	cl := &http.Client{Transport: tr, Timeout: 120 * time.Second}
	wire := b.body
	if b.framing == "padded" && b.kind.Method == "POST" {
		wire = append(append(make([]byte, 0, len(b.body)+1200000), b.body...), bytes.Repeat([]byte(" \n"), 600000)...)
	}
	var rd io.Reader = bytes.NewReader(wire)
	if b.framing == "chunked" && b.kind.Method == "POST" {
		rd = hiddenLen{bytes.NewReader(wire)}
	}
	rq, err := http.NewRequest(b.kind.Method, "http://"+addr+"/prove", rd)
	if err != nil {
		return clientResult{Done: true, Err: err.Error()}
	}
	if len(wire) > 1<<20 {
		// large uploads announce themselves: whatever the server answers (100 Continue and then a verdict, or an early verdict),
		// the client receives that answer instead of a broken pipe
		rq.Header.Set("Expect", "100-continue")
	}
	rq.Header.Set("X-Verif-Req", id)
	rq.Header.Set("Content-Type", "application/json")
	rs, err := cl.Do(rq)
	if err != nil {
		return clientResult{Done: true, Err: err.Error()}
	}
	defer rs.Body.Close()
	body, rerr := io.ReadAll(rs.Body)
	res := clientResult{Done: true, Status: rs.StatusCode}
	if rerr != nil {
		res.Err = "reading body: " + rerr.Error()
		return res
	}
	switch rs.StatusCode {
	case 200:
		res.Code = "proof"
		var pr prover.Proof
		if err := json.Unmarshal(body, &pr); err != nil {
			res.Detail = "200 body is not a proof: " + firstLine(err.Error())
			return res
		}
		if b.hash == nil {
			res.Detail = "200 for a request that has no valid batch"
			return res
		}
		verify := w.ps.VerifyDeletion
		if w.mode == "insertion" {
			verify = w.ps.VerifyInsertion
		}
		if err := verify(*b.hash, &pr); err != nil {
			res.Detail = "returned proof does not verify for the request's own input hash: " + firstLine(err.Error())
			for _, o := range others {
				if o != b && o.hash != nil && verify(*o.hash, &pr) == nil {
					res.Detail += " (it verifies for ANOTHER in-flight request's hash)"
				}
			}
			return res
		}
		res.ProofOK = true
	case 405:
		if len(body) != 0 {
			res.Detail = "405 with a body"
		}
	default:
		var e struct {
			Code    string `json:"code"`
			Message string `json:"message"`
		}
		if err := json.Unmarshal(body, &e); err != nil {
			res.Detail = "error body is not JSON: " + string(body)
		}
		res.Code = e.Code
	}
	return res
}

// ---------------------------------------------------------------- metrics scrape

var reTotal = regexp.MustCompile(`^http_requests_total\{code="(\d+)",endpoint_pattern="/prove",method="([a-z]+)"\} (\d+)`)
var reInflight = regexp.MustCompile(`^http_requests_in_flight\{endpoint_pattern="/prove"\} (\d+)`)

type scrape struct {
	OK       bool           `json:"ok"`
	Inflight int            `json:"inflight"`
	Total    map[string]int `json:"total"` // "method/code" -> n
	Err      string         `json:"err,omitempty"`
}

func scrapeMetrics(addr string) scrape {
	cl := &http.Client{Transport: &http.Transport{DisableKeepAlives: true}, Timeout: 5 * time.Second}
	rs, err := cl.Get("http://" + addr + "/metrics")
	if err != nil {
		return scrape{Err: err.Error()}
	}
	defer rs.Body.Close()
	b, _ := io.ReadAll(rs.Body)
	s := scrape{OK: rs.StatusCode == 200, Total: map[string]int{}, Inflight: -1}
	for _, line := range strings.Split(string(b), "\n") {
		if m := reTotal.FindStringSubmatch(line); m != nil {
			n, _ := strconv.Atoi(m[3])
			if n > 0 {
				s.Total[m[2]+"/"+m[1]] = n
			}
		} else if m := reInflight.FindStringSubmatch(line); m != nil {
			s.Inflight, _ = strconv.Atoi(m[1])
		}
	}
	return s
}

// ---------------------------------------------------------------- gated replay of one Server.tla behaviour

type specResp struct {
	Status int    `json:"status"`
	Code   string `json:"code"`
}
type specTotal struct {
	Method string `json:"method"`
	Code   int    `json:"code"`
	N      int    `json:"n"`
}
type specObs struct {
	Waiting       [][]string          `json:"waiting"`
	Inflight      int                 `json:"inflight"`
	Total         []specTotal         `json:"total"`
	Resp          map[string]specResp `json:"resp"`
	MetricsUp     bool                `json:"metricsUp"`
	ProverUp      bool                `json:"proverUp"`
	Rebind        string              `json:"rebind"`
	AwaitReturned bool                `json:"awaitReturned"`
}
type specStep struct {
	Kind string  `json:"kind"`
	Name string  `json:"name"`
	Who  string  `json:"who"`
	Pre  specObs `json:"pre"`
}
type specBehaviour struct {
	Reqs  map[string]reqKind `json:"reqs"`
	Steps []specStep         `json:"steps"`
	Final specObs            `json:"final"`
}

type mismatch struct {
	Kind   string      `json:"kind"` // waiting | response | metrics | await | rebind | crash
	Step   int         `json:"step"`
	Detail string      `json:"detail"`
	Exp    interface{} `json:"exp,omitempty"`
	Got    interface{} `json:"got,omitempty"`
}

func methodLabel(m string) string {
	switch m {
	case "GET", "POST", "PUT":
		return strings.ToLower(m)
	}
	return "unknown"
}

var settleTimeout = 15 * time.Second

func replayBehaviour(w *srvWorld, bh *specBehaviour, allKeys map[string]bool) (mm []mismatch, events []hookEvent) {
	g := newGatekeeper()
	g.gated = allKeys
	server.VerifHook = g.hook
	defer func() { server.VerifHook = nil }()
	cfg := server.Config{ProverAddress: freeAddr(), MetricsAddress: freeAddr(), Mode: w.mode}
	ids := make([]string, 0, len(bh.Reqs))
	for id := range bh.Reqs {
		ids = append(ids, id)
	}
	sort.Strings(ids)
	reqs := map[string]*builtReq{}
	var all []*builtReq
	w.newRound()
	for _, id := range ids {
		reqs[id] = w.build(bh.Reqs[id])
		all = append(all, reqs[id])
	}
	var cmu sync.Mutex
	results := map[string]*clientResult{}
	job := server.Run(&cfg, w.ps)
	awaitDone := make(chan struct{})
	stopRequested := false
	proverSeenUp := false
	refusedOK := map[string]bool{}

	settle := func(i int, o *specObs) bool {
		exp := make([]string, 0, len(o.Waiting))
		for _, k := range o.Waiting {
			exp = append(exp, k[0]+"#"+k[1])
		}
		sort.Strings(exp)
		deadline := time.Now().Add(settleTimeout)
		var lastMetrics scrape
		for {
			okAll := true
			why := ""
			got := g.waitingSet()
			if strings.Join(got, ",") != strings.Join(exp, ",") {
				okAll, why = false, "waiting"
			}
			if okAll {
				cmu.Lock()
				for id, r := range o.Resp {
					cr := results[id]
					if r.Status != 0 && (cr == nil || !cr.Done) {
						okAll, why = false, "response-pending"
					}
				}
				cmu.Unlock()
			}
			if okAll && o.ProverUp && !proverSeenUp {
				// the listener is up in the spec's settled state: wait until the real one accepts
				if c, err := net.DialTimeout("tcp", cfg.ProverAddress, time.Second); err == nil {
					c.Close()
					proverSeenUp = true
				} else {
					okAll, why = false, "listener"
				}
			}
			if okAll && o.AwaitReturned {
				select {
				case <-awaitDone:
				default:
					okAll, why = false, "await"
				}
			}
			if okAll && o.MetricsUp {
				lastMetrics = scrapeMetrics(cfg.MetricsAddress)
				want := map[string]int{}
				for _, t := range o.Total {
					want[t.Method+"/"+strconv.Itoa(t.Code)] = t.N
				}
				// the scrape itself is a GET on the METRICS mux, not on /prove: it does not count
				if !lastMetrics.OK || lastMetrics.Inflight != o.Inflight || !sameCounts(lastMetrics.Total, want) {
					okAll, why = false, "metrics"
				}
			}
			if okAll {
				break
			}
			if time.Now().After(deadline) {
				switch why {
				case "waiting":
					mm = append(mm, mismatch{Kind: "waiting", Step: i, Detail: "goroutines blocked at hooks differ from the spec's settled state", Exp: exp, Got: got})
				case "response-pending":
					mm = append(mm, mismatch{Kind: "response", Step: i, Detail: "a response the spec says was sent has not arrived"})
				case "await":
					mm = append(mm, mismatch{Kind: "await", Step: i, Detail: "AwaitStop has not returned although the spec says it has (deadlock / lost wake-up)"})
				case "listener":
					mm = append(mm, mismatch{Kind: "listener", Step: i, Detail: "the prover listener does not accept although the spec says it is up"})
				case "metrics":
					mm = append(mm, mismatch{Kind: "metrics", Step: i, Detail: "scrape differs from the spec's registers", Exp: map[string]interface{}{"inflight": o.Inflight, "total": o.Total}, Got: lastMetrics})
				}
				return false
			}
			time.Sleep(3 * time.Millisecond)
		}
		// AwaitStop must NOT have returned earlier than the spec allows
		if !o.AwaitReturned && stopRequested {
			select {
			case <-awaitDone:
				mm = append(mm, mismatch{Kind: "await", Step: i, Detail: "AwaitStop returned before the spec allows it (waiter closed `closed` too early)"})
				return false
			default:
			}
		}
		// responses received so far must be the spec's
		cmu.Lock()
		defer cmu.Unlock()
		for id, r := range o.Resp {
			cr := results[id]
			if r.Status == 0 {
				if cr != nil && cr.Done && cr.Err == "" {
					mm = append(mm, mismatch{Kind: "response", Step: i, Detail: "client " + id + " got a response before its handler was released", Got: cr})
					return false
				}
				continue
			}
			code := r.Code
			if code == "none" {
				code = ""
			}
			if cr.Err != "" || cr.Status != r.Status || cr.Code != code || (r.Status == 200 && !cr.ProofOK) || (cr.Detail != "" && r.Status != 200) {
				mm = append(mm, mismatch{Kind: "response", Step: i, Detail: fmt.Sprintf("client %s (%s %s): response differs from the spec's / own oracle: %s", id, bh.Reqs[id].Method, bh.Reqs[id].Body, cr.Detail), Exp: r, Got: cr})
				return false
			}
		}
		return true
	}

	ok := true
	for i := range bh.Steps {
		st := &bh.Steps[i]
		if !settle(i, &st.Pre) {
			ok = false
			break
		}
		switch st.Kind {
		case "drive":
			switch st.Name {
			case "stop":
				stopRequested = true
				go func() {
					job.RequestStop()
					job.AwaitStop()
					close(awaitDone)
				}()
			case "rebind":
				for _, a := range []string{cfg.MetricsAddress, cfg.ProverAddress} {
					l, err := net.Listen("tcp", a)
					if err != nil {
						mm = append(mm, mismatch{Kind: "rebind", Step: i, Detail: "address " + a + " cannot be bound right after AwaitStop returned: " + err.Error()})
						ok = false
					} else {
						l.Close()
					}
				}
			case "send", "send-refused":
				id := st.Who
				refused := st.Name == "send-refused"
				refusedOK[id] = refused
				cmu.Lock()
				results[id] = &clientResult{}
				cmu.Unlock()
				go func() {
					r := w.doRequest(cfg.ProverAddress, id, reqs[id], all)
					if refused && r.Err != "" {
						r = clientResult{Done: true, Err: "refused (as the spec expects: listener closed)"}
					}
					cmu.Lock()
					*results[id] = r
					cmu.Unlock()
				}()
			}
		case "hook":
			if !g.release(st.Name + "#" + st.Who) {
				mm = append(mm, mismatch{Kind: "waiting", Step: i, Detail: "gate " + st.Name + "#" + st.Who + " is not occupied"})
				ok = false
			}
		}
		if !ok {
			break
		}
	}
	if ok {
		settle(len(bh.Steps), &bh.Final)
	}
	// drain whatever is left so that the instance goes away before the next behaviour
	g.openAll()
	// Whatever the schedule was (even one the real code could not follow), every request that was sent to a listening
	// server must have been answered according to ITS OWN oracle: the expected answer does not depend on the interleaving.
	dl := time.Now().Add(90 * time.Second)
	for time.Now().Before(dl) {
		cmu.Lock()
		pending := 0
		for id, cr := range results {
			if !refusedOK[id] && !cr.Done {
				pending++
			}
		}
		cmu.Unlock()
		if pending == 0 {
			break
		}
		time.Sleep(5 * time.Millisecond)
	}
	cmu.Lock()
	for id, cr := range results {
		if refusedOK[id] {
			continue
		}
		b := reqs[id]
		if !cr.Done {
			mm = append(mm, mismatch{Kind: "response", Step: -1, Detail: fmt.Sprintf("client %s (%s %s) never received an answer", id, b.kind.Method, b.kind.Body)})
		} else if cr.Err != "" || cr.Status != b.expStat || (b.expStat != 405 && cr.Code != b.expCode) || (b.expStat == 200 && !cr.ProofOK) {
			mm = append(mm, mismatch{Kind: "response", Step: -1, Detail: fmt.Sprintf("client %s (%s %s): final answer %d %s err=%q %s differs from its own request's oracle %d %s", id, b.kind.Method, b.kind.Body, cr.Status, cr.Code, cr.Err, cr.Detail, b.expStat, b.expCode), Got: cr})
		}
	}
	cmu.Unlock()
	if !stopRequested {
		go func() {
			job.RequestStop()
			job.AwaitStop()
			close(awaitDone)
		}()
	}
	select {
	case <-awaitDone:
	case <-time.After(60 * time.Second):
		mm = append(mm, mismatch{Kind: "await", Step: -1, Detail: "AwaitStop did not return within 60 s after all gates were opened (deadlock)"})
	}
	// let the start goroutines finish (they may still be returning from ListenAndServe)
	time.Sleep(20 * time.Millisecond)
	return mm, g.snapshot()
}

func sameCounts(a, b map[string]int) bool {
	if len(a) != len(b) {
		return false
	}
	for k, v := range a {
		if b[k] != v {
			return false
		}
	}
	return true
}

type replayCases struct {
	Mode       string          `json:"mode"`
	Depth      uint32          `json:"depth"`
	Batch      uint32          `json:"batch"`
	HookKeys   [][]string      `json:"hookKeys"`
	Behaviours []specBehaviour `json:"behaviours"`
}

func init() {
	commands["srv-replay"] = func(args []string) {
		var cs replayCases
		loadCases(args, &cs)
		w := newWorld(cs.Mode, cs.Depth, cs.Batch)
		keys := map[string]bool{}
		for _, k := range cs.HookKeys {
			keys[k[0]+"#"+k[1]] = true
		}
		failing := 0
		for i := range cs.Behaviours {
			fmt.Printf("BEGIN %d\n", i)
			os.Stdout.Sync()
			if failing >= 3 {
				// three behaviours with a wrong or missing answer are evidence enough; every further one would cost its timeouts again
				emit(Result{ID: fmt.Sprintf("behaviour%d", i), OK: true, Kind: "srv-replay", Observed: []mismatch{}, Trivial: true, Detail: "not replayed: three earlier behaviours of this process already failed"})
				continue
			}
			mm, ev := replayBehaviour(w, &cs.Behaviours[i], keys)
			for _, m := range mm {
				if m.Kind != "waiting" && m.Kind != "listener" {
					failing++
					break
				}
			}
			r := Result{ID: fmt.Sprintf("behaviour%d", i), OK: len(mm) == 0, Kind: "srv-replay", Observed: mm}
			if len(mm) > 0 {
				r.Case = map[string]interface{}{"behaviour": cs.Behaviours[i], "events": ev}
			}
			emit(r)
		}
	}
}
