package main

// Flood leg of C20 / C13 / C09: one Server.tla behaviour with MANY clients — N requests are brought inside the prove handler at the same
// time (slow uploads: the handler blocks in io.ReadAll until the client finishes its body), the metrics endpoint is scraped while they are
// all held (GaugeExact: gauge = number of requests inside the wrapper; the endpoint must answer while /prove is busy), then the uploads
// finish.  Afterwards every client must have received the answer its own request calls for (Isolation), the per-(method, code) totals must
// have grown by exactly the responses received and the gauge must be back to 0 (Conservation).

import (
	"fmt"
	"io"
	"net/http"
	"sync"
	"time"

	"worldcoin/gnark-mbu/server"
)

func init() {
	commands["srv-flood"] = func(args []string) {
		var cs struct {
			Mode   string `json:"mode"`
			Depth  uint32 `json:"depth"`
			Batch  uint32 `json:"batch"`
			Floods []int  `json:"floods"` // numbers of simultaneous slow uploads, one flood after the other on the same server
		}
		loadCases(args, &cs)
		w := newWorld(cs.Mode, cs.Depth, cs.Batch)
		cfg := server.Config{ProverAddress: freeAddr(), MetricsAddress: freeAddr(), Mode: w.mode}
		job := server.Run(&cfg, w.ps)
		defer func() { job.RequestStop(); job.AwaitStop() }()
		for i := 0; i < 2000; i++ {
			s := scrapeMetrics(cfg.MetricsAddress)
			if rs, err := http.Get("http://" + cfg.ProverAddress + "/prove"); err == nil {
				rs.Body.Close()
				if s.OK {
					break
				}
			}
			time.Sleep(5 * time.Millisecond)
		}
		for fi, n := range cs.Floods {
			r := Result{ID: fmt.Sprintf("flood%d/n=%d", fi, n), OK: true, Kind: "srv-flood"}
			fail := func(format string, a ...interface{}) {
				if r.OK {
					r.OK, r.Detail = false, fmt.Sprintf(format, a...)
					r.Case = map[string]interface{}{"mode": cs.Mode, "depth": cs.Depth, "batch": cs.Batch, "floods": cs.Floods[:fi+1]}
				}
			}
			before := scrapeMetrics(cfg.MetricsAddress)
			if !before.OK {
				fail("metrics endpoint not available before the flood: %s", before.Err)
				emit(r)
				continue
			}
			type ans struct {
				status int
				body   string
				err    error
			}
			answers := make([]ans, n)
			release := make(chan struct{})
			var wg sync.WaitGroup
			for i := 0; i < n; i++ {
				wg.Add(1)
				go func(i int) {
					defer wg.Done()
					pr, pw := io.Pipe()
					go func() {
						pw.Write([]byte(`{"inputHash": "0x1", "junk`)) // never a decodable document: the answer is 400 malformed_body
						<-release
						pw.Write([]byte(`"`))
						pw.Close()
					}()
					cl := &http.Client{Transport: &http.Transport{DisableKeepAlives: true}, Timeout: 120 * time.Second}
					rq, _ := http.NewRequest("POST", "http://"+cfg.ProverAddress+"/prove", pr)
					rq.Header.Set("X-Verif-Req", fmt.Sprintf("f%d", i))
					rs, err := cl.Do(rq)
					if err != nil {
						answers[i] = ans{err: err}
						return
					}
					b, _ := io.ReadAll(rs.Body)
					rs.Body.Close()
					answers[i] = ans{status: rs.StatusCode, body: string(b)}
				}(i)
			}
			// settled state: all n inside the handler (or as many as the server lets in); scrape while they are held
			peak, scrapesOK := 0, 0
			deadline := time.Now().Add(15 * time.Second)
			for time.Now().Before(deadline) {
				s := scrapeMetrics(cfg.MetricsAddress)
				if s.OK {
					scrapesOK++
					if s.Inflight > peak {
						peak = s.Inflight
					}
					if s.Inflight > n {
						fail("gauge %d with only %d requests sent", s.Inflight, n)
					}
					if s.Inflight >= n {
						break
					}
				}
				time.Sleep(20 * time.Millisecond)
			}
			if scrapesOK == 0 {
				fail("the metrics endpoint did not answer while %d requests were being served", n)
			}
			close(release)
			wg.Wait()
			got := map[string]int{}
			for i, a := range answers {
				if a.err != nil {
					fail("client f%d of %d simultaneous uploads received no answer: %v", i, n, a.err)
					continue
				}
				got[fmt.Sprintf("post/%d", a.status)]++
				if a.status != 400 || !contains(a.body, "malformed_body") {
					fail("client f%d of %d simultaneous uploads (undecodable body): answer %d %s — its own request calls for 400 malformed_body", i, n, a.status, firstLine(a.body))
				}
			}
			// convergence (the counters move after the response is on the wire): poll up to 10 s
			var after scrape
			ok := false
			for t := 0; t < 500 && !ok; t++ {
				after = scrapeMetrics(cfg.MetricsAddress)
				ok = after.OK && after.Inflight == 0
				for k, v := range got {
					if after.Total[k]-before.Total[k] != v {
						ok = false
					}
				}
				if !ok {
					time.Sleep(20 * time.Millisecond)
				}
			}
			if !ok {
				delta := map[string]int{}
				for k, v := range after.Total {
					if v != before.Total[k] {
						delta[k] = v - before.Total[k]
					}
				}
				fail("after %d simultaneous requests had all completed (peak gauge seen %d): in-flight gauge = %d (must be 0), totals grew by %v, responses received %v", n, peak, after.Inflight, delta, got)
			}
			r.Observed = map[string]interface{}{"peak_gauge": peak, "responses": got}
			emit(r)
		}
	}
}

func contains(s, sub string) bool {
	for i := 0; i+len(sub) <= len(s); i++ {
		if s[i:i+len(sub)] == sub {
			return true
		}
	}
	return false
}
