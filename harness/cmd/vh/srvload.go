package main

// Un-gated load driver (code -> spec direction of C13 / C20 / C09): N concurrent clients with
// randomised start offsets and a mix of request kinds against one server.Run instance; hooks only
// record.  Every response is checked against its own request's oracle, the metrics endpoint is
// scraped during and after each round, and the whole run is written as an ndjson trace that TLC
// validates against TraceServer.tla.

import (
	"encoding/json"
	"fmt"
	"math/rand"
	"os"
	"sort"
	"sync"
	"sync/atomic"
	"time"

	"worldcoin/gnark-mbu/server"
)

type loadSpec struct {
	Mode      string    `json:"mode"`
	Depth     uint32    `json:"depth"`
	Batch     uint32    `json:"batch"`
	Rounds    int       `json:"rounds"`
	MaxClient int       `json:"maxClients"`
	Kinds     []reqKind `json:"kinds"`
	TraceFile string    `json:"traceFile"`
	Scrapes   int       `json:"scrapesPerRound"`
	SlowMs    int       `json:"slowMs"` // in round 1, client c1 sends a valid request whose proof takes this much longer (held at prove.proved)
}

type traceWriter struct {
	mu  sync.Mutex
	f   *os.File
	seq int
}

func (t *traceWriter) emit(ev map[string]interface{}) {
	t.mu.Lock()
	defer t.mu.Unlock()
	t.seq++
	ev["seq"] = t.seq
	b, _ := json.Marshal(ev)
	t.f.Write(append(b, '\n'))
}

func init() {
	commands["srv-load"] = func(args []string) {
		var cs loadSpec
		loadCases(args, &cs)
		w := newWorld(cs.Mode, cs.Depth, cs.Batch)
		rng := rand.New(rand.NewSource(seed()))
		f, err := os.Create(cs.TraceFile)
		if err != nil {
			die("%v", err)
		}
		tw := &traceWriter{f: f}
		// hooks: record only, under the trace writer's mutex (file order = real interleaving)
		g := newGatekeeper()
		var curRound int32 = -1
		server.VerifHook = func(ev string, args ...interface{}) {
			g.mu.Lock()
			who, extra := g.keyOf(ev, args)
			g.mu.Unlock()
			if len(ev) > 6 && ev[:6] == "prove." && who != "" {
				tw.emit(map[string]interface{}{"event": ev, "c": who, "arg": extra})
			}
			if cs.SlowMs > 0 && ev == "prove.proved" && who == "c1" && atomic.LoadInt32(&curRound) == 1 {
				time.Sleep(time.Duration(cs.SlowMs) * time.Millisecond) // a production-size proof takes tens of seconds
			}
		}
		cfg := server.Config{ProverAddress: freeAddr(), MetricsAddress: freeAddr(), Mode: w.mode}
		job := server.Run(&cfg, w.ps)
		// wait for both listeners
		cum := map[string]int{}
		for i := 0; i < 2000; i++ {
			s := scrapeMetrics(cfg.MetricsAddress)
			r := w.doRequest(cfg.ProverAddress, "warmup", &builtReq{kind: reqKind{Method: "GET"}}, nil)
			if r.Err == "" {
				cum["get/405"]++ // answered warm-up GETs are part of the server's history
			}
			if s.OK && r.Err == "" {
				break
			}
			time.Sleep(5 * time.Millisecond)
		}
		for round := 0; round < cs.Rounds; round++ {
			n := 2 + rng.Intn(max(1, cs.MaxClient-1))
			if round == 0 {
				n = 1 // a sequential request first
			}
			atomic.StoreInt32(&curRound, int32(round))
			// burst rounds: as many proving requests as allowed, sent at the same instant, so that several of them are inside the prover
			// together (one proving, the others queued behind whatever serialises them)
			burst := round >= 2 && round%2 == 0 && !(cs.SlowMs > 0 && round == 1)
			if burst {
				n = max(cs.MaxClient, 3)
			}
			ids := make([]string, n)
			reqs := map[string]*builtReq{}
			kinds := map[string]reqKind{}
			var all []*builtReq
			w.newRound()
			for i := 0; i < n; i++ {
				ids[i] = fmt.Sprintf("c%d", i+1)
				k := cs.Kinds[rng.Intn(len(cs.Kinds))]
				if burst {
					var proving []reqKind
					for _, kk := range cs.Kinds {
						if kk.Method == "POST" && (kk.Body == "valid" || kk.Body == "unsat") {
							proving = append(proving, kk)
						}
					}
					if len(proving) > 0 {
						k = proving[rng.Intn(len(proving))]
					}
				}
				if cs.SlowMs > 0 && round == 1 && i == 0 {
					for _, kk := range cs.Kinds {
						if kk.Method == "POST" && kk.Body == "valid" {
							k = kk
						}
					}
				}
				kinds[ids[i]] = k
				reqs[ids[i]] = w.build(k)
				// framing: every fourth round (bursts included) all uploads are large or of unknown length, so that several such
				// uploads overlap; otherwise one request in four
				if round%4 == 2 || rng.Intn(4) == 0 {
					reqs[ids[i]].framing = []string{"padded", "chunked", "padded"}[rng.Intn(3)]
				}
				all = append(all, reqs[ids[i]])
			}
			base := map[string]int{}
			for k, v := range cum {
				base[k] = v
			}
			tw.emit(map[string]interface{}{"event": "reset", "round": round, "reqs": kinds, "base": totalsList(base)})
			var wg sync.WaitGroup
			results := make([]clientResult, n)
			offsets := make([]time.Duration, n)
			for i := range offsets {
				offsets[i] = time.Duration(rng.Intn(3000)) * time.Microsecond
				if burst {
					offsets[i] = 0
				}
			}
			stopScrape := make(chan struct{})
			var swg sync.WaitGroup
			swg.Add(1)
			go func() {
				defer swg.Done()
				for k := 0; k < cs.Scrapes; k++ {
					select {
					case <-stopScrape:
						return
					case <-time.After(time.Duration(1+rng.Intn(40)) * time.Millisecond):
					}
					tw.emit(map[string]interface{}{"event": "scrape-begin"})
					s := scrapeMetrics(cfg.MetricsAddress)
					if s.OK {
						tw.emit(map[string]interface{}{"event": "scrape", "inflight": s.Inflight, "total": totalsList(s.Total), "final": false})
					} else {
						tw.emit(map[string]interface{}{"event": "scrape-failed", "err": s.Err})
					}
				}
			}()
			for i := 0; i < n; i++ {
				wg.Add(1)
				go func(i int) {
					defer wg.Done()
					time.Sleep(offsets[i])
					tw.emit(map[string]interface{}{"event": "send", "c": ids[i]})
					results[i] = w.doRequest(cfg.ProverAddress, ids[i], reqs[ids[i]], all)
					r := results[i]
					tw.emit(map[string]interface{}{"event": "recv", "c": ids[i], "status": r.Status, "code": codeOrNone(r.Code), "proofok": r.ProofOK, "err": r.Err, "detail": r.Detail})
				}(i)
			}
			wg.Wait()
			close(stopScrape)
			swg.Wait()
			for i := 0; i < n; i++ {
				r := results[i]
				if r.Err == "" {
					cum[methodLabel(kinds[ids[i]].Method)+"/"+fmt.Sprint(r.Status)]++
				}
			}
			// quiescence: totals converge to the client's tally, gauge back to zero (poll <= 10 s: the counter is
			// incremented after the response may already have reached the client)
			var s scrape
			dl := time.Now().Add(10 * time.Second)
			for {
				s = scrapeMetrics(cfg.MetricsAddress)
				if s.OK && s.Inflight == 0 && sameCounts(s.Total, cum) || time.Now().After(dl) {
					break
				}
				time.Sleep(2 * time.Millisecond)
			}
			tw.emit(map[string]interface{}{"event": "scrape", "inflight": s.Inflight, "total": totalsList(s.Total), "final": true, "ok": s.OK})
			// per-round summary for the driver (verdicts come from the oracle comparison here AND from TLC on the trace)
			out := map[string]interface{}{"round": round, "clients": n}
			bad := []string{}
			for i := 0; i < n; i++ {
				b, r := reqs[ids[i]], results[i]
				if r.Err != "" || r.Status != b.expStat || (b.expStat != 405 && r.Code != b.expCode) || (b.expStat == 200 && !r.ProofOK) || (b.expStat != 200 && r.Detail != "") {
					bad = append(bad, fmt.Sprintf("%s (%s %s): expected %d %s, got %d %s err=%q %s", ids[i], kinds[ids[i]].Method, kinds[ids[i]].Body, b.expStat, b.expCode, r.Status, r.Code, r.Err, r.Detail))
				}
			}
			out["bad_responses"] = bad
			out["metrics_ok"] = s.OK && s.Inflight == 0 && sameCounts(s.Total, cum)
			out["metrics_got"] = s
			out["metrics_want"] = cum
			b, _ := json.Marshal(out)
			fmt.Println(string(b))
		}
		job.RequestStop()
		job.AwaitStop()
		server.VerifHook = nil
		f.Close()
	}
}

func codeOrNone(c string) string {
	if c == "" {
		return "none"
	}
	return c
}

func totalsList(m map[string]int) []map[string]interface{} {
	keys := make([]string, 0, len(m))
	for k := range m {
		keys = append(keys, k)
	}
	sort.Strings(keys)
	out := []map[string]interface{}{}
	for _, k := range keys {
		var method string
		var code int
		for i := range k {
			if k[i] == '/' {
				method = k[:i]
				fmt.Sscan(k[i+1:], &code)
			}
		}
		out = append(out, map[string]interface{}{"method": method, "code": code, "n": m[k]})
	}
	return out
}
