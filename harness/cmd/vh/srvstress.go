package main

// Stress drivers for the timings that fall INSIDE net/http and that no hook can gate (C14):
// the start goroutine of a server job racing with Shutdown.  Start-up and shutdown are aligned
// with gates so that ListenAndServe and Shutdown run concurrently, AwaitStop is awaited, and
// both addresses are bound immediately afterwards.

import (
	"fmt"
	"math/rand"
	"net"
	"os"
	"strings"
	"time"

	"worldcoin/gnark-mbu/server"
)

type stressCases struct {
	Iterations int    `json:"iterations"`
	Mode       string `json:"mode"`   // "aligned" | "free"
	Cycles     int    `json:"cycles"` // start/stop cycles on the SAME addresses per iteration
}

func spin(d time.Duration) {
	t := time.Now()
	for time.Since(t) < d {
	}
}

func init() {
	commands["srv-stress"] = func(args []string) {
		var cs stressCases
		loadCases(args, &cs)
		rng := rand.New(rand.NewSource(seed()))
		fails := 0
		var firstFail string
		lateAlive := 0
		sequentialStops := 0
		stableFor := 500 * time.Millisecond
		progress, _ := os.Create("stress-progress.txt")
		// a small pool of reserved addresses, re-used round robin (every iteration re-binds addresses a stopped instance has just released)
		pool := make([]string, 16)
		for i := range pool {
			pool[i] = freeAddr()
		}
		for it := 0; it < cs.Iterations; it++ {
			cfg := server.Config{ProverAddress: pool[(2*it)%len(pool)], MetricsAddress: pool[(2*it+1)%len(pool)], Mode: "deletion"}
			for cyc := 0; cyc < max(cs.Cycles, 1); cyc++ {
				g := newGatekeeper()
				if cs.Mode == "aligned" {
					g.gated = map[string]bool{"srv.start.begin#m": true, "srv.start.begin#p": true, "srv.shutdown.begin#m": true, "srv.shutdown.begin#p": true}
				}
				server.VerifHook = g.hook
				d1 := time.Duration(rng.Intn(60)) * time.Microsecond
				d2 := time.Duration(rng.Intn(60)) * time.Microsecond
				if progress != nil {
					fmt.Fprintf(progress, "iter %d cycle %d d1=%v d2=%v addrs %s %s\n", it, cyc, d1, d2, cfg.ProverAddress, cfg.MetricsAddress)
				}
				job := server.Run(&cfg, nil)
				done := make(chan struct{})
				if cs.Mode == "aligned" {
					go func() { job.RequestStop(); job.AwaitStop(); close(done) }()
					// wait until both start goroutines and both waiters sit at their gates.  An implementation may also stop the two servers
					// one after the other (the second waiter reaches shutdown() only once the first server is down): then three gates are
					// reached and nothing more happens — that is a design choice, not a defect, and the cycle goes on with what is there.
					count := func(ws []string) (started, stopping int) {
						for _, k := range ws {
							if strings.HasPrefix(k, "srv.start.begin") {
								started++
							}
							if strings.HasPrefix(k, "srv.shutdown.begin") {
								stopping++
							}
						}
						return
					}
					dl := time.Now().Add(10 * time.Second)
					var stable time.Time
					for time.Now().Before(dl) {
						ws := g.waitingSet()
						if len(ws) >= 4 {
							break
						}
						if st, sp := count(ws); st == 2 && sp >= 1 {
							if stable.IsZero() {
								stable = time.Now()
							} else if time.Since(stable) > stableFor {
								break
							}
						}
						time.Sleep(50 * time.Microsecond)
					}
					ws := g.waitingSet()
					if started, stopping := count(ws); started == 2 && stopping == 0 {
						// both start goroutines are at their hooks, RequestStop has been called, yet no waiter reached shutdown(): the stop was lost
						g.openAll()
						emit(Result{ID: fmt.Sprintf("iter%d", it), OK: false, Kind: "deadlock",
							Detail: fmt.Sprintf("iteration %d cycle %d: RequestStop was called right after Run but 10 s later no waiter goroutine has begun shutdown (lost wake-up); hooks reached: %v", it, cyc, ws),
							Case:   map[string]interface{}{"iterations": it + 1, "mode": cs.Mode, "cycles": cs.Cycles}})
						return
					} else if started < 2 {
						die("stress: gates not reached: %v", ws)
					}
					if len(ws) < 4 {
						sequentialStops++
						if sequentialStops >= 3 {
							stableFor = 2 * time.Millisecond // this implementation stops its servers one after the other: do not wait for a fourth gate
						}
					}
					// release ListenAndServe and Shutdown of each server (almost) together
					order := rng.Intn(2)
					for _, j := range []string{"m", "p"} {
						if order == 0 {
							g.release("srv.start.begin#" + j)
							spin(d1)
							g.release("srv.shutdown.begin#" + j)
						} else {
							g.release("srv.shutdown.begin#" + j)
							spin(d1)
							g.release("srv.start.begin#" + j)
						}
						spin(d2)
					}
					g.openAll() // hooks reached later (a waiter that stops its server after the other one) pass freely
				} else {
					spin(d1)
					go func() { job.RequestStop(); job.AwaitStop(); close(done) }()
				}
				select {
				case <-done:
				case <-time.After(30 * time.Second):
					emit(Result{ID: fmt.Sprintf("iter%d", it), OK: false, Kind: "deadlock", Detail: "AwaitStop did not return within 30 s", Case: map[string]interface{}{"iterations": it + 1, "mode": cs.Mode, "cycles": cs.Cycles}})
					return
				}
				// AwaitStop has returned: have the start goroutines returned?
				ended := 0
				for _, e := range g.snapshot() {
					if e.Ev == "srv.start.end" {
						ended++
					}
				}
				if ended < 2 {
					lateAlive++
				}
				// the same addresses must be bindable right now, and stay free
				for pass := 0; pass < 2; pass++ {
					for _, a := range []string{cfg.MetricsAddress, cfg.ProverAddress} {
						l, err := net.Listen("tcp", a)
						if err != nil {
							fails++
							if firstFail == "" {
								firstFail = fmt.Sprintf("iteration %d cycle %d: %s not bindable after AwaitStop returned: %v", it, cyc, a, err)
							}
						} else {
							l.Close()
						}
					}
					if pass == 0 {
						spin(time.Duration(rng.Intn(300)) * time.Microsecond)
					}
				}
				g.openAll()
				server.VerifHook = nil
				if fails > 0 {
					break
				}
			}
			if fails > 0 {
				break
			}
		}
		r := Result{ID: "stress-" + cs.Mode, OK: fails == 0, Kind: "srv-stress", Detail: firstFail,
			Observed: map[string]interface{}{"iterations": cs.Iterations, "cycles": cs.Cycles, "start_goroutine_alive_when_await_returned": lateAlive, "cycles_with_sequential_shutdown": sequentialStops}}
		if fails > 0 {
			r.Case = map[string]interface{}{"iterations": cs.Iterations, "mode": cs.Mode, "cycles": cs.Cycles}
		}
		emit(r)
	}
}
