package main

// Interpreter [[.]] of the symbolic values used by the "sym" instance of the specifications:
//   H(a,b)  -> Poseidon (iden3 reference) of the interpretations
//   E<k>    -> hash of the empty subtree of height k (E0 = 0)
//   decimal -> itself
//   any other atom (a, b, J, v3, ...) -> a field element derived from the atom's name and the seed
// The iden3 reference is what the off-chain world uses; the in-circuit Poseidon is bound to the
// same function by C05.

import (
	"crypto/sha256"
	"fmt"
	"math/big"
	"strconv"
	"strings"

	"github.com/iden3/go-iden3-crypto/poseidon"
)

type interp struct {
	memo  map[string]*big.Int
	empty []*big.Int
	salt  string
}

func newInterp(salt string) *interp {
	it := &interp{memo: map[string]*big.Int{}, salt: salt}
	it.empty = []*big.Int{big.NewInt(0)}
	for k := 1; k <= 40; k++ {
		h, _ := poseidon.Hash([]*big.Int{it.empty[k-1], it.empty[k-1]})
		it.empty = append(it.empty, h)
	}
	return it
}

func (it *interp) atom(name string) *big.Int {
	if len(name) > 1 && name[0] == 'E' {
		if k, err := strconv.Atoi(name[1:]); err == nil && k < len(it.empty) {
			return it.empty[k]
		}
	}
	if name != "" && name[0] >= '0' && name[0] <= '9' {
		return bigOf(name)
	}
	switch name {
	case "zero":
		return big.NewInt(0)
	case "one":
		return big.NewInt(1)
	case "rm1":
		return new(big.Int).Sub(bn254R, big.NewInt(1))
	}
	h := sha256.Sum256([]byte(it.salt + "/" + name))
	return new(big.Int).Mod(new(big.Int).SetBytes(h[:]), bn254R)
}

// split "H(x,y)" at the top-level comma
func splitH(s string) (string, string, bool) {
	if !strings.HasPrefix(s, "H(") || !strings.HasSuffix(s, ")") {
		return "", "", false
	}
	inner := s[2 : len(s)-1]
	depth := 0
	for i := 0; i < len(inner); i++ {
		switch inner[i] {
		case '(':
			depth++
		case ')':
			depth--
		case ',':
			if depth == 0 {
				return inner[:i], inner[i+1:], true
			}
		}
	}
	return "", "", false
}

func (it *interp) eval(term string) *big.Int {
	if v, ok := it.memo[term]; ok {
		return v
	}
	var v *big.Int
	if a, b, ok := splitH(term); ok {
		h, err := poseidon.Hash([]*big.Int{it.eval(a), it.eval(b)})
		if err != nil {
			die("poseidon: %v", err)
		}
		v = h
	} else {
		if strings.ContainsAny(term, "(),") {
			die("malformed term %q", term)
		}
		v = it.atom(term)
	}
	it.memo[term] = v
	return v
}

func (it *interp) evalAll(terms []string) []*big.Int {
	out := make([]*big.Int, len(terms))
	for i, t := range terms {
		out[i] = it.eval(t)
	}
	return out
}

func fmtBigs(bs []*big.Int) []string {
	out := make([]string, len(bs))
	for i, b := range bs {
		out[i] = fmt.Sprint(b)
	}
	return out
}
