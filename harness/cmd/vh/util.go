package main

import (
	"encoding/json"
	"math/big"
	"strings"
)

// json_num accepts a JSON number or a decimal/hex string and keeps it as a string.
type json_num string

func (n *json_num) UnmarshalJSON(b []byte) error {
	s := strings.Trim(string(b), `"`)
	*n = json_num(s)
	return nil
}
func (n json_num) MarshalJSON() ([]byte, error) { return json.Marshal(string(n)) }
func (n json_num) big() *big.Int                { return bigOf(string(n)) }

func firstLine(s string) string {
	if i := strings.IndexByte(s, '\n'); i >= 0 {
		s = s[:i]
	}
	if len(s) > 300 {
		s = s[:300]
	}
	return s
}
