"""Shared driver for the artefact monitor (C12, C17): plan from Artifacts.tla, fresh-process execution, trace validation."""
import json, os, re
from concurrent.futures import ThreadPoolExecutor
from vlib import Infra


def tla_dims(dims):
    return "{" + ", ".join('<<"%s", %d, %d>>' % tuple(d) if len(d) == 3 else "<<%d, %d>>" % tuple(d) for d in dims) + "}"


def module(dims, paths, procs, reps, edims):
    return ("---- MODULE ArtRun ----\nEXTENDS Artifacts\nDM == %s\nPT == {%s}\nPR == {%s}\nED == %s\n====\n"
            % (tla_dims(dims), ", ".join('"%s"' % p for p in paths), ", ".join(map(str, procs)), tla_dims(edims)), reps)


CFG = "SPECIFICATION Spec\nCONSTANTS Dims <- DM\nPaths <- PT\nProcs <- PR\nReps = %d\nExtractDims <- ED\n%sCHECK_DEADLOCK FALSE\n"


def plan(ctx, dims, paths, procs, reps, edims):
    mod, reps = module(dims, paths, procs, reps, edims)
    empty = os.path.join(ctx.scratch, "empty.ndjson")
    open(empty, "w").close()
    r = ctx.tlc("ArtRun", CFG % (reps, "INVARIANTS ExportPlan\n"), files={"ArtRun.tla": mod}, workers=1, env_extra={"TRACE_FILE": empty}, label="Artifacts plan")
    if len(r["traces"]) != 1:
        raise Infra("no plan exported")
    return r["traces"][0], mod, reps


def execute(ctx, items, nproc=8):
    """items: list of (command, case dict, GOMAXPROCS). Each runs in a fresh harness process. Returns records in plan order."""
    def one(it):
        cmd, case, procs = it
        res = ctx.run_vh([cmd], case, timeout=3000, env_extra={"GOMAXPROCS": str(procs)} if procs else None)
        want = 1 + (case.get("reps", 0) if isinstance(case, dict) else 0)
        if len(res) != want:
            raise Infra("%s returned %d records, expected %d" % (cmd, len(res), want))
        return res
    with ThreadPoolExecutor(nproc) as ex:
        return [r for rs in ex.map(one, items) for r in rs]


def validate(ctx, records, mod, reps, label):
    tf = os.path.join(ctx.scratch, "art-%d.ndjson" % len(ctx.tlc_runs))
    with open(tf, "w") as fh:
        for r in records:
            fh.write(json.dumps(r) + "\n")
    c = CFG % (reps, "CONSTRAINT HighWater\nPOSTCONDITION TraceAccepted\n")
    r = ctx.tlc("ArtRun", c, files={"ArtRun.tla": mod}, workers=1, dfs=True, env_extra={"TRACE_FILE": tf}, label=label, allow_violation=True, timeout=900)
    m = re.search(r'<<"HWM", (\d+), (\d+)>>', r["out"])
    if not m:
        raise Infra("Artifacts trace validation gave no high-water mark:\n" + "\n".join(r["out"].splitlines()[-30:]))
    hwm, total = int(m.group(1)), int(m.group(2))
    if hwm == total + 1:
        if not r["ok"]:
            raise Infra("Artifacts trace validation failed:\n" + "\n".join(r["out"].splitlines()[-30:]))
        ctx.states += r["distinct"]
        ctx.transitions += r["generated"]
        return None
    return hwm      # 1-based index of the rejected record
