"""Job-algebra leg of C14: JobTree.tla model-checked over several tree shapes; the real SpawnJob / CombineJobs validated by TraceJobTree.tla."""
import json, os, re
from vlib import Infra

SHAPES = {
    "server": dict(nodes=["r", "m", "p"], kids={"r": ["m", "p"]}, root="r", serve=["m", "p"]),                       # the shape server.Run builds
    "nested": dict(nodes=["r", "a", "b", "c", "d"], kids={"r": ["a", "b"], "b": ["c", "d"]}, root="r", serve=["a", "c"]),
    "three": dict(nodes=["r", "a", "b", "c"], kids={"r": ["a", "b", "c"]}, root="r", serve=["b"]),
    "leaf": dict(nodes=["r"], kids={}, root="r", serve=["r"]),
    "empty": dict(nodes=["r"], kids={"r": []}, root="r", serve=[]),                                                  # CombineJobs() of nothing
    "deep": dict(nodes=["r", "a", "b", "c"], kids={"r": ["a"], "a": ["b"], "b": ["c"]}, root="r", serve=["c"]),
}
INV = "TypeOK ClosedMeansOver AwaitSound ShutdownOnlyAfterStop StopHasCause AllAskedBeforeWaiting PanicOnlyByMisuse NoPanicInProperUse NoSpontaneousClose"


def q(xs):
    return "{" + ", ".join('"%s"' % x for x in xs) + "}"


def module(name, sh, extends="JobTree"):
    kids = " @@ ".join('("%s" :> <<%s>>)' % (n, ", ".join('"%s"' % k for k in ks)) for n, ks in sh["kids"].items()) or "[x \\in {} |-> <<>>]"
    return "---- MODULE %s ----\nEXTENDS %s\nN == %s\nI == %s\nK == %s\nS == %s\n====\n" % (name, extends, q(sh["nodes"]), q(sh["kids"].keys()), kids, q(sh["serve"]))


def cfg(sh, spec="FairSpec", wait=True, await_all=True, misuse=0, invariants=INV, props="Terminates", extra=""):
    return ("SPECIFICATION %s\nCONSTANTS Nodes <- N\nInner <- I\nKids <- K\nRoot = \"%s\"\nServe <- S\nWaitForStart = %s\nAwaitAll = %s\nMisuse = %d\nINVARIANTS %s\n%sCHECK_DEADLOCK FALSE\n%s"
            % (spec, sh["root"], "TRUE" if wait else "FALSE", "TRUE" if await_all else "FALSE", misuse, invariants, ("PROPERTY %s\n" % props) if props else "", extra))


def descendants(sh, n):
    out = [n]
    for k in sh["kids"].get(n, []):
        out += descendants(sh, k)
    return out


def oracle(sh, events):
    """property-level observation on one run: when AwaitStop(n) returns, every start and shutdown function below n has returned"""
    over = set()
    for e in events:
        if e["ev"] in ("leaf.start.end", "leaf.shutdown.end"):
            over.add((e["ev"], e["n"]))
        if e["ev"] in ("job.await_return", "run.end"):
            leaves = [d for d in descendants(sh, e["n"]) if d not in sh["kids"]]
            missing = [(k, d) for d in leaves for k in ("leaf.start.end", "leaf.shutdown.end") if (k, d) not in over]
            if missing:
                return "AwaitStop(%s) returned (event %d) before %s of job %s" % (e["n"], e["seq"], missing[0][0].replace("leaf.", "").replace(".end", " function had returned"), missing[0][1])
        if e["ev"] == "run.hang":
            return "AwaitStop on the root never returned"
    return None


def run(ctx):
    quick = ctx.quick
    # 1. design level: every interleaving, every shape; mutants refuted
    for name in (["server", "three", "leaf", "empty"] if quick else list(SHAPES)):
        sh = SHAPES[name]
        ctx.tlc("JT", cfg(sh), files={"JT.tla": module("JT", sh)}, label="JobTree mc shape=%s" % name, timeout=1800, heap="8g")
    sh = SHAPES["server"]
    ctx.tlc("JT", cfg(sh, spec="Spec", misuse=2, props=""), files={"JT.tla": module("JT", sh)}, label="JobTree mc shape=server with API misuse (RequestStop on any job, twice)", timeout=1800, heap="8g")
    ctx.expect_mutant_violates("JT", cfg(sh, spec="Spec", wait=False, invariants="ClosedMeansOver", props=""), "JobTree mutant WaitForStart=FALSE", files={"JT.tla": module("JT", sh)})
    ctx.expect_mutant_violates("JT", cfg(SHAPES["three"], spec="Spec", await_all=False, invariants="ClosedMeansOver", props=""), "JobTree mutant AwaitAll=FALSE (only the last child awaited)",
                               files={"JT.tla": module("JT", SHAPES["three"])})
    # 2. the real combinators: traces of random runs validated against JobTree.tla
    runs = 60 if quick else 600
    total = 0
    for name in (["server", "nested", "three", "leaf", "empty"] if quick else list(SHAPES)):
        sh = SHAPES[name]
        tf = os.path.join(ctx.scratch, "jobtree-%s.ndjson" % name)
        res = ctx.run_vh(["jobtree"], dict(shape=sh, runs=runs, traceFile=tf, twice=True), timeout=1800)
        lines = [json.loads(x) for x in open(tf)]
        for x in res:
            if not x["ok"]:
                ctx.violation("job algebra (%s): %s" % (name, x.get("detail")), dict(kind="jobtree", shape=name, events=lines[-60:]))
        c = cfg(sh, spec="TraceSpec", misuse=1, props="", invariants=INV.replace("NoPanicInProperUse", ""), extra="CONSTRAINT HighWater\nPOSTCONDITION TraceAccepted\n")
        r = ctx.tlc("TJT", c, files={"TJT.tla": module("TJT", sh, extends="TraceJobTree")}, workers=1, dfs=True, env_extra={"TRACE_FILE": tf},
                    label="TraceJobTree shape=%s (%d events, %d runs)" % (name, len(lines), runs), allow_violation=True, timeout=1800)
        m = re.search(r'<<"HWM", (\d+), (\d+)>>', r["out"])
        if not m:
            raise Infra("TraceJobTree did not report a high-water mark:\n" + "\n".join(r["out"].splitlines()[-30:]))
        hwm, n = int(m.group(1)), int(m.group(2))
        total += n
        if hwm != n + 1:
            start = max([i for i in range(min(hwm, len(lines))) if lines[i]["ev"] == "reset"] or [0])
            end = min([i for i in range(hwm, len(lines)) if lines[i]["ev"] == "reset"] or [len(lines)])
            why = oracle(sh, lines[start:end])
            if not why:
                # TLC stops at the first line it cannot explain; the property-level observation is evaluated on every recorded run
                bounds = [i for i, e in enumerate(lines) if e["ev"] == "reset"] + [len(lines)]
                for a, b in zip(bounds, bounds[1:]):
                    why = oracle(sh, lines[a:b])
                    if why:
                        start, end = a, b
                        break
            inv = re.search(r"Invariant (\w+) is violated", r["out"])
            if why or inv:
                ctx.violation("job algebra (%s): recorded run rejected by TraceJobTree.tla at event %d%s: %s" % (name, hwm, " (invariant %s)" % inv.group(1) if inv else "", why or json.dumps(lines[hwm - 1])),
                              dict(kind="jobtree", shape=name, events=lines[start:end], rejected_at=hwm))
            else:
                raise Infra("TraceJobTree.tla cannot explain event %d (%s) although every property-level observation holds: JobTree.tla needs updating" % (hwm, json.dumps(lines[hwm - 1])))
        elif not r["ok"]:
            raise Infra("TraceJobTree failed:\n" + "\n".join(r["out"].splitlines()[-30:]))
        else:
            ctx.states += r["distinct"]
            ctx.transitions += r["generated"]
    ctx.cov["job_algebra"] = dict(shapes=(["server", "nested", "three", "leaf", "empty"] if quick else list(SHAPES)), runs_per_shape=runs, trace_events=total)
    return total
