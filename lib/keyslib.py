"""Shared pieces for the proving-system file checks (C11, C15): layout discovery and KeysFile.tla configuration."""
import json
from vlib import Infra


def layout(ctx, systems):
    out = ctx.run_vh(["keys-layout"], dict(systems=systems, dir=ctx.scratch), timeout=1800)
    lay = {o["id"]: o for o in out}
    if set(lay) != set(s["id"] for s in systems):
        raise Infra("keys-layout returned %s" % list(lay))
    return lay


def module(systems, lay, files):
    sl = " @@ ".join('("%s" :> ("c" :> <<%s>> @@ "r" :> <<%s>>))' % (s["id"], ", ".join(map(str, lay[s["id"]]["c"])), ", ".join(map(str, lay[s["id"]]["r"])))
                     for s in systems)
    dim = " @@ ".join('("%s" :> [mode |-> "%s", depth |-> %d, batch |-> %d])' % (s["id"], s.get("mode", "syn"), s["depth"], s["batch"]) for s in systems)
    return ("---- MODULE KeysRun ----\nEXTENDS KeysFile\nSYS == {%s}\nDIM == %s\nSL == %s\nFL == {%s}\n====\n"
            % (", ".join('"%s"' % s["id"] for s in systems), dim, sl, ", ".join('"%s"' % f for f in files)))


def cfg(maxops, cutmode, variant="code", invariants=("NeverHalfLoaded", "RoundTrip", "LastReadFaithful"), export=False, view=False, links=False, convert="code"):
    c = ("SPECIFICATION Spec\nCONSTANTS Systems <- SYS\nDim <- DIM\nSecLen <- SL\nFiles <- FL\nMaxOps = %d\nCutMode = \"%s\"\nReaderVariant = \"%s\"\nAllowLinks = %s\nConvertVariant = \"%s\"\nINVARIANTS %s%s\nCHECK_DEADLOCK FALSE\n"
         % (maxops, cutmode, variant, "TRUE" if links else "FALSE", convert, " ".join(invariants), " Export" if export else ""))
    if view:
        c += "VIEW NoHistView\n"
    return c
