HOOK_COMMITS = ["94172af", "dd1b337"]
NOTES = ("Model-based verification with explicit TLA+ specifications (specs/), TLC, and a Go conformance harness (harness/). "
         "Exit 2 of a check = infrastructure trouble, never a verdict. See DESIGN.md.")
NOT_APPLICABLE = {}
CHECKS = {
    "C05": dict(
        level="model_checking",
        technique="TLA+ round machine (Poseidon.tla) model-checked by TLC; every TLC behaviour replayed into the Go gadgets (test engine over tiny primes exhaustively, BN254 test engine + compiled R1CS)",
        text="Poseidon.tla is an executable round-machine specification (KAT-pinned, frozen constants). TLC enumerates all inputs over tiny prime fields and value classes / call sessions at BN254; each behaviour's expected output is compared with the Go gadget's output and any other output must be unsatisfiable.",
        note="Trusted: BigInteger arithmetic in the BigField override (cross-validated on small moduli), gnark's test engine and R1CS solver, the frozen circomlib parameter set (pinned by published vectors and go-iden3-crypto). At BN254 inputs are classes and seeded samples, not all field elements.",
    ),
    "C10": dict(
        level="model_checking",
        technique="TLA+ byte-level codec machine (ProofCodec.tla) model-checked over all byte-length vectors; TLC-generated vectors realised as synthetic gnark proofs and replayed through the real JSON codec, plus real Groth16 proofs",
        text="ProofCodec.tla states the JSON layout (EVM order) and the lossless round trip for every coordinate byte-length vector; TLC checks it exhaustively over length classes and refutes the left-alignment mutant. Every short/full vector realisable by curve points is replayed through prover.Proof Marshal/Unmarshal and compared with the coordinates read from the gnark struct; seeded real proofs must still verify after the round trip.",
        note="Trusted: gnark-crypto raw point encoding and the reflection read of Ar/Bs/Krs; Groth16 verify as oracle for 'still accepted'. Vectors with two short coordinates in one G2 point are not realised (probability 2^-16 per proof).",
    ),
    "C14": dict(
        level="model_checking",
        technique="TLA+ goroutine-level model (Server.tla) of SpawnJob/CombineJobs and net/http ListenAndServe/Shutdown model-checked with TLC (safety + termination, mutants refuted); TLC-simulated behaviours replayed as gated schedules on the real server.Run; aligned stress for timings inside net/http",
        text="All interleavings of stop vs. both servers' start-up steps and 1..2 in-flight requests are model-checked (ListenerReleased, RebindOk, Drain, Terminates). Behaviours of ServerGen.tla (run-to-gate semantics) drive the real code with every verif hook as a gate: settled goroutine positions, responses, AwaitStop return and re-bind of both addresses are compared with the spec at every decision. The ListenAndServe/Shutdown race that no hook can gate is exercised by aligned start/stop cycles on the same addresses.",
        note="Trusted: the transcription of net/http's ListenAndServe/Shutdown steps; schedules inside net/http are sampled by stress, not enumerated. SIGINT delivery before signal.Notify is outside the property.",
    ),
}
