HOOK_COMMITS = ["94172af", "dd1b337", "5847cdf"]
NOTES = ("Model-based verification with explicit TLA+ specifications (specs/), TLC, and a Go conformance harness (harness/). "
         "Exit 2 of a check = infrastructure trouble, never a verdict. See DESIGN.md.")
NOT_APPLICABLE = {}
CHECKS = {
    "C05": dict(
        level="model_checking",
        technique="TLA+ round machine (Poseidon.tla) model-checked by TLC; every TLC behaviour replayed into the Go gadgets (test engine over tiny primes exhaustively, BN254 test engine + compiled R1CS)",
        text="Poseidon.tla is an executable round-machine specification (KAT-pinned, frozen constants). TLC enumerates all inputs over tiny prime fields and value classes / call sessions at BN254; each behaviour's expected output is compared with the Go gadget's output and any other output must be unsatisfiable.",
        note="Trusted: BigInteger arithmetic in the BigField override (cross-validated on small moduli), gnark's test engine and R1CS solver, the frozen circomlib parameter set (pinned by published vectors and go-iden3-crypto). At BN254 inputs are classes and seeded samples, not all field elements.",
    ),
    "C10": dict(
        level="model_checking",
        technique="TLA+ byte-level codec machine (ProofCodec.tla) model-checked over all byte-length vectors; TLC-generated vectors realised as synthetic gnark proofs and replayed through the real JSON codec, plus real Groth16 proofs",
        text="ProofCodec.tla states the JSON layout (EVM order) and the lossless round trip for every coordinate byte-length vector; TLC checks it exhaustively over length classes and refutes the left-alignment mutant. Every short/full vector realisable by curve points is replayed through prover.Proof Marshal/Unmarshal and compared with the coordinates read from the gnark struct; seeded real proofs must still verify after the round trip.",
        note="Trusted: gnark-crypto raw point encoding and the reflection read of Ar/Bs/Krs; Groth16 verify as oracle for 'still accepted'. Vectors with two short coordinates in one G2 point are not realised (probability 2^-16 per proof).",
    ),
    "C14": dict(
        level="model_checking",
        technique="TLA+ goroutine-level model (Server.tla) of SpawnJob/CombineJobs and net/http ListenAndServe/Shutdown model-checked with TLC (safety + termination, mutants refuted); TLC-simulated behaviours replayed as gated schedules on the real server.Run; aligned stress for timings inside net/http; hook traces of the real `gnark-mbu start` process under SIGINT validated by TLC against TraceJob.tla (rejections are violations when a property-level observation fails)",
        text="All interleavings of stop vs. both servers' start-up steps and 1..2 in-flight requests are model-checked (ListenerReleased, RebindOk, Drain, Terminates). Behaviours of ServerGen.tla (run-to-gate semantics) drive the real code with every verif hook as a gate: settled goroutine positions, responses, AwaitStop return and re-bind of both addresses are compared with the spec at every decision. The ListenAndServe/Shutdown race that no hook can gate is exercised by aligned start/stop cycles on the same addresses.",
        note="Trusted: the transcription of net/http's ListenAndServe/Shutdown steps; schedules inside net/http are sampled by stress, not enumerated. SIGINT delivery before signal.Notify is outside the property.",
    ),
    "C04": dict(
        level="model_checking",
        technique="executable TLA+ Keccak-f[1600]/sponge specification (Keccak.tla, constants derived from FIPS 202, KAT-pinned) run as a sponge machine by TLC for every (length, content, domain) of the tier; each behaviour's digest replayed into the Go gadget (test engine + compiled R1CS)",
        text="KeccakMC.tla pads with the implementation-shaped arithmetic and TLC checks that it equals pad10*1 for every byte length over three rate blocks (mutant with an extra block at 135 mod 136 refuted). Every behaviour (message, digest) is replayed into NewKeccak256/NewSHA3_256: the gadget output must be the spec digest and a one-bit-different digest must be unsatisfiable.",
        note="Trusted: gnark test engine/R1CS solver. The spec digest is additionally cross-checked against golang.org/x/crypto/sha3 on every case (spec bug = exit 2). Contents are classes (zero, ones, single bits, boundary bits, pseudo-random), not all 2^n messages.",
    ),
    "C06": dict(
        level="model_checking",
        technique="TLA+ ScanBit state machine (ReducedCheck.tla) = the loop of ReducedModRCheck; TLC covers ALL digit vectors for BN254/256 by state merging and every vector for tiny primes; per-path-class and per-vector replay into the Go gadgets incl. R1CS with the bits.NBits hint replaced; mixed-field sessions in one process; TLAPS proof of the scan invariant for arbitrary width and modulus (ReducedCheckProof.tla); extracted gate list compared with the spec's scan",
        text="Model level: exhaustive for the production parameters (all boolean and non-boolean digit vectors of length 256 against the BN254 modulus; invariant: accepted iff boolean and below the modulus; three mutants refuted) and for all vectors over small primes with the ghost comparison tied to integer values, big-endian emission and recomposition. Code level: one vector per path class of the BN254 scan graph and every vector over tiny fields are replayed into ReducedModRCheck, ToReducedBigEndian and FromBinaryBigEndian (test engine; compiled R1CS over 47 and BN254 with prover-chosen digits).",
        note="Trusted: gnark's ToBinary semantics (hint + booleanity + recomposition), observed through the engine and the solver with a replaced hint. At BN254 the code is exercised per path class (1529 vectors), not on all 2^256.",
    ),
    "C08": dict(
        level="model_checking",
        technique="TLA+ specification of the on-chain packing and of the circuit's bit path (Packing.tla) with the executable Keccak.tla as oracle; TLC-chosen value-class vectors replayed into ComputeInputHash*, and documents produced by the code (gen-test-params CLI sweep, random valid batches with short roots) validated against the spec and against the real circuit; sessions in one process with out-of-range calls interleaved and concurrent callers",
        text="PackingAgrees/HashAgrees: the bit string the circuit hashes is abi.encodePacked of the fields and the recomposed digest is keccak mod r, for every class vector TLC enumerates. Leg A: helpers must return the spec hash for every byte-length class of roots/commitments, index class and batch size (one- and two-block inputs). Leg B: every document the code produces must carry the spec's hash and be accepted by the real circuit.",
        note="Trusted: Keccak.tla (KATs + per-case cross-check with x/crypto); gnark test engine for circuit acceptance. Value classes, not all field elements.",
    ),
    "C18": dict(
        level="model_checking",
        technique="TLA+ state machine of the persistent node algorithm next to the abstract leaf map (PoseidonTree.tla over Merkle.tla), model-checked for all histories at depth <= 3; every history replayed into the real PoseidonTree through a term interpreter; recorded random histories validated by a TLC trace specification with the real Poseidon",
        text="PoseidonTree.tla transcribes withValue/writeProof over materialised nodes and states RootIsRecomputation, ProofAuthenticates, OthersUnchanged, CachedHashes, EmptyTable; TLC checks them for every history of <= 4 updates at depth 1..3 (symbolic injective hash). All those histories, plus simulated histories over candidate paths at depth 8..32, are applied to the real tree and Root()/proof compared with the interpretation of the spec's terms after each step. In the other direction seeded random histories recorded from the real tree (depth up to 32) are accepted by TraceTree.tla instantiated with Poseidon over BN254, with the invariants evaluated after every step.",
        note="Trusted: collision-freeness of Poseidon in the symbolic instance (explicit assumption); the iden3 reference used by the interpreter (bound to the spec by C05's KATs); exhaustive only up to depth 3 / 4 updates.",
    ),
    "C01": dict(
        level="model_checking",
        technique="TLA+ model MTB.tla (circuit round relations with prover-chosen digits next to the abstract batch meaning, adversary choosing every input incl. alias-consistent data) model-checked by TLC with the assertion accept <=> valid at every End; stratified behaviours replayed into the real insertion circuit (test engine, compiled R1CS, dishonest hint tables); production-depth model MTBBig.tla (depth 31/32, real 2^32 and r bounds) replayed likewise; GadgetTiny.tla: the gadget relation on every tuple over tiny fields and its constraint-level form with the prover-chosen wires explicit (HintSoundComplete, mutants refuted), bound to the code by trying every bit-hint output on the compiled R1CS over F_47",
        text="Design level: exhaustive over all adversarial insertion inputs (start classes incl. past the end, >= 2^IdxBits, wrap-around; commitments; genuine/stale/corrupted/reused/alias-consistent paths; post-root candidates) on all trees reachable by insertion and deletion batches at depth <= 3, batch <= 3; four circuit mutants refuted. Code level: every deviation class the model distinguishes (honest prefix + one batch with <= k independent deviations) is concretised over BN254 and presented to prover.InsertionMbuCircuit; the verdict of the test engine, of the R1CS solver and of the solver with dishonest hints must be the spec's.",
        note="Trusted: Poseidon collision-freeness (symbolic hash), the tiny-field abstraction of index arithmetic (P = 47, 5 index bits), gnark's builder/solver, Groth16 soundness. Replay dimensions are (1,1)..(3,2); depth 32 is covered by C12/C07 builds, not by adversarial replay.",
    ),
    "C02": dict(
        level="model_checking",
        technique="same MTB.tla model for the deletion circuit (Depth+1 digits, skip flag, IsZero-or-skip, Select) with padding, duplicates, already-empty leaves and too-high indices; TLC assertion accept <=> valid; stratified behaviours replayed into the real deletion circuit (engine, R1CS, dishonest bit/inverse hints); MTBBig.tla at depth 31 and GadgetTiny.tla (every tuple over tiny fields; constraint-level HintSoundComplete with explicit digits and is-zero inverse, every hint output tried on the compiled R1CS over F_47)",
        text="Design level: exhaustive over index vectors (distinct, duplicated, already empty, padding, >= 2^(Depth+1), 2^IdxBits-1, wrapping), presented values, paths and arbitrary padding-slot contents on all reachable trees; five mutants refuted (membership dropped, Select swapped, skip bit misplaced, one digit too many, final check dropped). Code level: as C01 with prover.DeletionMbuCircuit, including replaced InvZero hints.",
        note="As C01. The IsZero gadget is modelled by its forced value; its two-constraint relation is exercised through the R1CS solver with a lying inverse hint.",
    ),
    "C13": dict(
        level="model_checking",
        technique="Server.tla model-checked for Isolation over all interleavings of 2..3 requests' handler steps (shared-state mutant refuted); TLC-simulated interleavings forced on the real handler through hook gates with each response checked against its own oracle; un-gated load traces validated by the TLC trace specification TraceServer.tla",
        text="Every interleaving of enter/read/decode/prove/respond of concurrent valid (distinct hashes), unsatisfiable and malformed requests is enumerated at the model level. ServerGen behaviours drive the real proveHandler step by step (run-to-gate), so that e.g. request B reads its body between A's read and A's decode; every response must be the one its own request determines and a 200's proof must verify for its own input hash. Recorded un-gated load (2..16 clients, random offsets) must be a behaviour of Server.tla (TraceServer), with Isolation evaluated in every state; the thorough tier repeats the load under the Go race detector.",
        note="Trusted: Groth16 soundness (a proof valid for hash h was computed from parameters hashing to h). Interleavings below hook granularity (inside gnark / encoding/json) are sampled by load and the race detector, not enumerated.",
    ),
    "C20": dict(
        level="model_checking",
        technique="Server.tla metrics registers (wrapper layering inc; handler; count; dec) model-checked for GaugeExact/Monotone/Lag/Conservation (bare-mux mutant refuted); gated replay compares the real /metrics with the spec's registers at every settled decision point; un-gated load with scrapes validated by TraceServer.tla with explicit lag; one request per run takes production-scale time (held 12 s / 65 s after proving)",
        text="At the model level every interleaving of 2..3 requests over methods GET/POST/PUT/FOO and outcomes is checked. In gated replay, with k requests held at TLC-chosen handler gates the scrape must show in-flight = k and exactly the spec's per-(method, code) totals, and after each release the totals must advance as the spec says (polling up to the settle timeout, since promhttp counts after the handler returned). Un-gated sequential and concurrent mixes are recorded with scrapes during and after load; TraceServer.tla rejects overshoot, regress, unknown labels, a failed scrape and non-convergence of the final scrape to the responses sent with a zero gauge.",
        note="Trusted: the text exposition format of client_golang; convergence timeout 10 s. Histogram/summary collectors (duration, sizes) are not modelled.",
    ),
    "C09": dict(
        level="model_checking",
        technique="TLA+ request/response machine ProveApi.tla over a class table (numeral verdicts taken from the NumGrammar.tla character machine); TLC checks the table and enumerates/simulates request sequences; every class is concretised into an HTTP request against a live server.Run per mode, with a canary valid request after every sequence",
        text="About 200 request classes per mode (methods; arbitrary/truncated bytes; ill-typed JSON; per numeric position: non-numbers, other notations, wrong JSON types, wrong / aliased / over-long values; index extremes; every array one too long / too short / empty incl. single ragged rows; missing and null fields; the other mode's document; valid and valid-with-extras) are each required to produce an answer in the set the statement allows, a 200 always carrying a proof that verifies for the request's input hash; sequences of three on one server plus a canary show that no request leaves state behind or kills the handler.",
        note="Trusted: Groth16 verify as the oracle for 'valid proof'. Classes the statement leaves open are only required to yield a documented answer. Bodies are class representatives, not all byte strings.",
    ),
    "C16": dict(
        level="model_checking",
        technique="TLA+ character machine NumGrammar.tla (Go base-0 literal grammar, three-valued verdict) enumerated by TLC over all strings <= 5 over a 16-symbol alphabet, each decoded by the real UnmarshalJSON in the numeric positions of both parameter types; ParamCodec.tla round trip over shape x magnitude classes replayed through json.Marshal/Unmarshal",
        text="Exhaustive small scope over the numeral grammar: every string must be rejected when it is a number in no notation, decoded to its value when 0x-hex, and decoded to the denoted value if accepted at all otherwise; the machine itself is cross-checked against math/big on every string (spec bug = exit 2). Round trips cover every vector of row lengths over 0..3 for batch 0..3 (rectangular, ragged, empty), magnitudes 0, 1, r-1, r, 2^256-1, leading-zero values and over-long values, and index extremes; index literals outside 32 bits must fail.",
        note="'Identical' = equal values and equal dimensions (nil vs empty slice not distinguished). Strings longer than 5 only through named literals.",
    ),
    "C11": dict(
        level="model_checking",
        technique="TLA+ file-system machine KeysFile.tla (write in either format, read, convert-to-raw, crash) model-checked for RoundTrip over all operation sequences; TLC-simulated sequences executed in one process on several real Groth16 systems with byte-exact comparison and cross prove/verify; conversions (incl. in place, input = output) through the real `gnark-mbu convert-to-raw`",
        text="Model level: every sequence of <= 4..5 write/read/convert operations over two files and 2..4 systems satisfies RoundTrip and LastReadFaithful (reader mutants refuted). Code level: simulated sequences plus four fixed ones (two different systems written before a read; each format; conversion) run on real insertion (2,1) and deletion (1,2) systems — depth != batch so a swap is visible; after every read/convert the loaded system must equal the system the spec says (depth, batch, byte-exact pk/vk/cs) and the original/reloaded pair must verify each other's proofs. The thorough tier goes through the `convert-to-raw` command and adds independent setups of equal dimensions.",
        note="Trusted: byte-exact re-serialisation as the notion of key equality; Groth16 verify. Dimensions are small ((2,1), (1,2), (3,2)).",
    ),
    "C15": dict(
        level="fault_enumeration",
        technique="KeysFile.tla Write;Crash(cut);Read enumerated by TLC for EVERY byte offset of files written by the code (synthetic systems) and for offset classes of real 50-85 MB files, with the actual section lengths; each cut replayed into UnsafeReadFrom under recover + watchdog, ReadSystemFromFile and the CLI commands; I/O block boundaries are a cut class",
        text="Fault = the file ends at offset `cut`. For two synthetic Groth16 systems wrapped in prover.ProvingSystem every offset 0..len-1 of both formats is read (exhaustive); for real (1,1) systems the classes of KeysFile.tla (header bytes, +-64 around each section boundary, strides through the proving key and the constraint system, the tail). Every prefix must yield an error — no load, no panic, no hang; `start|prove|verify|convert-to-raw` on truncated files must exit non-zero. The reader mutants 'EOF of the last section ignored' and 'stop after the verifying key' are refuted at the model level.",
        note="Real files are covered by offset classes (about 600 per format in the thorough tier), not every one of 8*10^7 offsets; internal sub-structure of the proving key is reached by strides, not by name.",
    ),
    "C03": dict(
        level="model_checking",
        technique="Packing.tla (on-chain abi.encodePacked vs the circuit's bit path, executable Keccak.tla as oracle) model-checked for PackingAgrees / HashAgrees / BytesInjective / canonical field encodings; per code-produced valid witness TLC computes the hash, the hashes of all single-field perturbations and of every forged encoding v + k*r, which the real circuit must accept resp. reject (engine, R1CS, R1CS with the bit-decomposition hint replaced); witnesses span one to three and more Keccak blocks",
        text="Design level: the bit string fed to Keccak is the byte string the verifier hashes for batch sizes 0..8 in both modes and for all witness values; the packing is injective; only representatives below r (and indices below 2^32) are acceptable (ReducedCheck.tla gives the exhaustive argument). Code level: for valid witnesses with one- and two-block hash inputs, value classes 0/1/r-1/leading-zero values and extreme indices, the circuit accepts exactly the spec's hash (any representative) and rejects hash+-1, the hash of every batch differing in one field, swapped roots, an index + 2^32, and — the attack the property names — the hash of the forged bytes of v + k*r with the prover's digit hint replaced accordingly.",
        note="Trusted: Keccak collision-freeness; Keccak.tla (KATs, x/crypto cross-check in C04/C08). Perturbations are +1 per field and the pre/post swap, not all alternative values.",
    ),
    "C07": dict(
        level="model_checking",
        technique="contract-level TLA+ specification Prover.tla (proof tokens, Prove iff valid and well-shaped, Verify iff own system and congruent hash) model-checked over all short sequences; behaviours covering every parameter class and every (issuer, verifier, candidate) combination executed on independently set-up real Groth16 systems",
        text="Every invalid-batch kind (wrong root, path, leaf, hash, shifted / out-of-range / too-high index, swapped roots) and every wrong-dimension kind (each array one too long or short, one ragged row, empty) must make ProveInsertion/ProveDeletion return an error and no proof without panicking; a valid batch must yield a proof that VerifyX accepts for own, own+r, own+2r, own+4r and rejects for own+-1, another batch's hash, a random value and 0, and that the other mode's system and an independent setup of the same dimensions reject.",
        note="Trusted: Groth16 soundness/completeness ('every other public input' is sampled). Dimensions (2,2), (3,2), (2,1).",
    ),
    "C12": dict(
        level="other",
        technique="trace validation against the TLA+ monitor Artifacts.tla: the run plan is derived from the spec by TLC, every build (BuildR1CS, Setup, ImportSetup, `gnark-mbu r1cs`) runs in a fresh process under a chosen GOMAXPROCS and records its constraint-system digest / public-input count / error, and TLC accepts the recorded history only if it keeps the digest registry functional",
        text="Same (mode, depth, batch) => byte-identical constraint system on every construction path, in every process and under every GOMAXPROCS tried; exactly one public input (gnark's constant wire excluded); deletion depth 32, 33, 63, 64, 100 refused on every path while depth <= 31 (and insertion depth 32) builds. The spec is a monitor: the schedules that matter are inside the Go runtime and gnark's compiler, so this is evidence by repeated execution, not exploration — level 'other'.",
        note="Trusted: SHA-256; GOMAXPROCS as the only external scheduling knob. The import path is compiled with key files of other dimensions where no matching setup was exported.",
    ),
    "C17": dict(
        level="translation_validation",
        technique="definition-by-definition comparison of the committed Lean model with extractions of the current Go circuits at (30,4) (library and CLI, fresh processes, varying GOMAXPROCS), recorded as a trace and validated by TLC against the Artifacts.tla monitor (CommittedIsCurrent, ExtractFunctional, RefsResolve, SweepOk)",
        text="Programs = the 54 definitions of formal-verification/FormalVerification.lean; each must be textually identical to the same-named definition extracted from the current circuits, the whole-file digests must agree, repeated extractions at (30,4) and at a sweep of other dimensions (incl. two-block keccak inputs: batch >= 3) must be identical and succeed, and every SemaphoreMTB identifier used by Main.lean and FormalVerification/*.lean must be defined in the committed model. On disagreement the replay file carries the unified diff.",
        note="Textual equality is stronger than semantic equality (a reordering that does not change meaning is reported); that is what 'exactly what extraction produces' asks for.",
    ),
    "C19": dict(
        level="model_checking",
        technique="TLA+ file-system + command machine Cli.tla (setup, gen-test-params, prove, verify, convert-to-raw, damaged/removed files, tampered proofs; exit status and stdout kind per command) model-checked over all command sequences; fixed covering pipelines and TLC-simulated sequences executed with the binary built from the tree, plus hundreds of independently randomised proofs through gen-test-params | prove | verify",
        text="After every command of every executed behaviour the exit status (0 exactly when Cli.tla says the result is right), the kind of standard output (prove: exactly one JSON proof line and nothing else; empty on failure) and a non-empty stderr on failure are compared with the spec: right / other known / missing / unknown mode, own / other / non-numeric input hash, own / independent / converted / truncated / garbage / absent keys, tampered proofs, unprovable parameters, both modes and two dimensions. The pipe loop exposes rare proof shapes (short or otherwise unusual coordinates) that only independent proofs reach.",
        note="prove with keys of the other KNOWN mode is left open by the property (the keys file does not record its mode; for batch size 1 the two circuits' witness layouts coincide) and by the spec ('any'). Dimensions (1,1), (2,1).",
    ),
}
