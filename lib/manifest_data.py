HOOK_COMMITS = ["94172af"]
NOTES = ("Model-based verification with explicit TLA+ specifications (specs/), TLC, and a Go conformance harness (harness/). "
         "Exit 2 of a check = infrastructure trouble, never a verdict. See DESIGN.md.")
NOT_APPLICABLE = {}
CHECKS = {
    "C05": dict(
        level="model_checking",
        technique="TLA+ round machine (Poseidon.tla) model-checked by TLC; every TLC behaviour replayed into the Go gadgets (test engine over tiny primes exhaustively, BN254 test engine + compiled R1CS)",
        text="Poseidon.tla is an executable round-machine specification (KAT-pinned, frozen constants). TLC enumerates all inputs over tiny prime fields and value classes / call sessions at BN254; each behaviour's expected output is compared with the Go gadget's output and any other output must be unsatisfiable.",
        note="Trusted: BigInteger arithmetic in the BigField override (cross-validated on small moduli), gnark's test engine and R1CS solver, the frozen circomlib parameter set (pinned by published vectors and go-iden3-crypto). At BN254 inputs are classes and seeded samples, not all field elements.",
    ),
}
