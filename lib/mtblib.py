"""Shared driver for C01 (insertion) and C02 (deletion): MTB.tla model checking, mutants, behaviour generation, replay."""
import json
from concurrent.futures import ThreadPoolExecutor
from vlib import Infra, rng

INS_MUTANTS = ["noempty", "widepath", "prevroot", "nofinal"]
DEL_MUTANTS = ["nomember", "selswap", "skipbit", "bits+2", "nofinal"]


def cfg(depth, batch, maxops, modes, vals=("a", "b"), mutant="none", gen=False, maxfaults=0, p=47, idxbits=5):
    c = ("SPECIFICATION Spec\nCONSTANTS FieldMode = \"bn254\"\nP = %d\nHashMode = \"sym\"\nDepth = %d\nBatch = %d\nVals = {%s}\nMaxOps = %d\nIdxBits = %d\n"
         "Modes = {%s}\nMutant = \"%s\"\nGen = %s\nMaxFaults = %d\nCHECK_DEADLOCK FALSE\n"
         % (p, depth, batch, ", ".join('"%s"' % v for v in vals), maxops, idxbits, ", ".join('"%s"' % m for m in modes), mutant,
            "TRUE" if gen else "FALSE", maxfaults))
    c += "INVARIANTS Export\n" if gen else "VIEW McView\n"
    return c


def model_check(ctx, mode):
    """Design level: the End assertion (circuit accepts <=> batch valid) over all adversarial inputs, all reachable trees."""
    other = "deletion" if mode == "insertion" else "insertion"
    both = [mode, other]
    runs = [(1, 1, 3, both), (2, 1, 3, both), (2, 2, 2, both), (3, 1, 2, both)] if ctx.quick else \
           [(1, 1, 4, both), (1, 2, 3, both), (2, 1, 4, both), (2, 2, 3, both), (3, 2, 2, both), (3, 1, 3, both), (2, 3, 2, [mode])]
    for d, b, m, modes in runs:
        ctx.tlc("MTB", cfg(d, b, m, modes), label="MTB mc depth=%d batch=%d ops<=%d %s" % (d, b, m, "+".join(modes)), timeout=3000, heap="24g")
    for mut in (INS_MUTANTS if mode == "insertion" else DEL_MUTANTS):
        ctx.expect_mutant_violates("MTB", cfg(2, 2, 2, both), "MTB mutant " + mut, timeout=900) if False else \
            ctx.expect_mutant_violates("MTB", cfg(2, 2, 2, both, mutant=mut), "MTB mutant " + mut, timeout=900)


def generate(ctx, mode, dims, maxfaults, vals, sample=None, maxops=2, simulate=None):
    """Behaviours: honest prefix (both modes, so holes occur) + one tested batch of `mode` with <= maxfaults deviations."""
    out = []
    for d, b in dims:
        other = "deletion" if mode == "insertion" else "insertion"
        if simulate:
            # the space of behaviours with several independent deviations is too large to enumerate: seeded simulation
            r = ctx.tlc("MTB", cfg(d, b, maxops, [mode, other], vals=vals, gen=True, maxfaults=maxfaults), simulate="num=%d" % (simulate // 4), depth=4 * (b + 2), workers=4,
                        label="MTB simulate depth=%d batch=%d faults<=%d" % (d, b, maxfaults), timeout=3000)
        else:
            r = ctx.tlc("MTB", cfg(d, b, maxops, [mode, other], vals=vals, gen=True, maxfaults=maxfaults),
                        label="MTB gen depth=%d batch=%d faults<=%d" % (d, b, maxfaults), timeout=3000, heap="24g")
        beh = [t for t in r["traces"] if t["ops"] and t["ops"][-1]["batch"]["mode"] == mode]
        if not beh:
            raise Infra("no behaviours generated for %s depth=%d batch=%d" % (mode, d, b))
        if sample is not None and len(beh) > sample:
            # stratified: a few representatives of every deviation class (start class, per-slot index class and deviation flags,
            # post deviation, verdict), so that every class the model distinguishes reaches the real circuit
            rr = rng(ctx.seed, "mtb/%s/%d/%d" % (mode, d, b))
            rr.shuffle(beh)
            classes = {}
            for t in beh:
                op = t["ops"][-1]
                sig = json.dumps([op["batch"]["start"], [[s_["idx"], s_["dev"]] for s_ in op["batch"]["slots"]], op["postdev"], op["accept"]])
                classes.setdefault(sig, []).append(t)
            per = max(1, sample // max(1, len(classes)))
            pick = []
            for sig in sorted(classes):
                pick += classes[sig][:per]
            if len(pick) > sample:
                # more classes than the budget: keep every accepted class and a seeded subset of the rest
                accp = [t for t in pick if t["ops"][-1]["accept"]]
                rej = [t for t in pick if not t["ops"][-1]["accept"]]
                pick = accp[:sample // 3] + rej[:sample - min(len(accp), sample // 3)]
            ctx.cov.setdefault("deviation_classes", {})["%s d=%d b=%d f<=%d" % (mode, d, b, maxfaults)] = len(classes)
            beh = pick
        out += beh
    return out


def big_cfg(depth, batch, modes, maxops=2, maxfaults=1, vals=("a",), mutant="none"):
    return ("SPECIFICATION Spec\nCONSTANTS FieldMode = \"bn254\"\nP = 7\nHashMode = \"sym\"\nDepth = %d\nBatch = %d\nVals = {%s}\nMaxOps = %d\nModes = {%s}\nMaxFaults = %d\n"
            "Mutant = \"%s\"\nINVARIANTS Export\nCHECK_DEADLOCK FALSE\n" % (depth, batch, ", ".join('"%s"' % v for v in vals), maxops, ", ".join('"%s"' % m for m in modes), maxfaults, mutant))


def generate_big(ctx, mode, dims, sample):
    """Production-scale behaviours (MTBBig.tla: depth up to 32, real 2^32 / r bounds, sparse trees): honest prefix + one batch with <= 1 deviation;
    TLC evaluates the circuit relation and the abstract meaning on each and asserts they agree."""
    out = []
    for d, b in dims:
        modes = [mode] if d > 31 else ["insertion", "deletion"]        # deletion circuits deeper than 31 do not exist
        r = ctx.tlc("MTBBig", big_cfg(d, b, modes), label="MTBBig gen depth=%d batch=%d" % (d, b), timeout=3000, heap="24g")
        beh = [t for t in r["traces"] if t["ops"] and t["ops"][-1]["batch"]["mode"] == mode]
        if not beh:
            raise Infra("no big behaviours for %s depth=%d" % (mode, d))
        rr = rng(ctx.seed, "mtbbig/%s/%d/%d" % (mode, d, b))
        rr.shuffle(beh)
        classes = {}
        for t in beh:
            op = t["ops"][-1]
            sig = json.dumps([op["batch"]["start"], [[s_["idx"], s_["dev"], s_["item"] == "E0"] for s_ in op["batch"]["slots"]], op["postdev"], op["accept"]])
            classes.setdefault(sig, []).append(t)
        per = max(1, sample // max(1, len(classes)))
        pick = []
        for sig in sorted(classes):
            pick += classes[sig][:per]
        if len(pick) > sample:
            accp = [t for t in pick if t["ops"][-1]["accept"]]
            rej = [t for t in pick if not t["ops"][-1]["accept"]]
            pick = accp[:sample // 3] + rej[:sample - min(len(accp), sample // 3)]
        ctx.cov.setdefault("deviation_classes", {})["%s BIG d=%d b=%d" % (mode, d, b)] = len(classes)
        out += pick
    for mut in (("widepath",) if mode == "insertion" else ("nomember",)):
        ctx.expect_mutant_violates("MTBBig", big_cfg(31, 1, ["insertion", "deletion"], mutant=mut), "MTBBig mutant %s at depth 31" % mut, timeout=900)
    return out


def replay(ctx, pid, mode, behaviours, r1cs_share, nproc=12):
    """Replay the LAST batch of each behaviour (the tested one; the prefix is implied by its terms)."""
    rr = rng(ctx.seed, "mtb-r1cs")
    jobs = {}
    for t in behaviours:
        key = (t["depth"], t["batchSize"], rr.random() < r1cs_share)
        jobs.setdefault(key, []).append(t)
    work = []
    for (d, b, r1cs), ts in jobs.items():
        step = max(1, (len(ts) + nproc - 1) // nproc) if not r1cs else max(1, min(40, (len(ts) + nproc - 1) // nproc))
        for i in range(0, len(ts), step):
            work.append(dict(behaviours=ts[i:i + step], r1cs=r1cs, only=mode, lastOnly=True))
    with ThreadPoolExecutor(nproc) as ex:
        results = list(ex.map(lambda w: ctx.run_vh(["mtb"], w, timeout=3000), work))
    n = acc = 0
    for res in results:
        for x in res:
            n += 1
            if x.get("expected"):
                acc += 1
            if not x["ok"]:
                ctx.violation("%s circuit disagrees with MTB.tla: %s: %s" % (mode, x["id"], x.get("detail")), dict(kind="mtb", cases=x.get("case")))
    if n != len(behaviours):
        raise Infra("harness returned %d verdicts for %d behaviours" % (n, len(behaviours)))
    return n, acc


def replay_file(ctx, path):
    case = json.load(open(path))
    res = ctx.run_vh(["gadget-tiny"], case["cases"], tags=("g_merkle",)) if case.get("kind") == "gadget-tiny" else \
        ctx.run_vh(["gadget-hints"], case["cases"], tags=("g_merkle",)) if case.get("kind") == "gadget-hints" else \
        ctx.run_vh(["e2e"], case["cases"], timeout=3000) if case.get("kind") == "e2e" else ctx.run_vh(["mtb"], case["cases"])
    bad = [x for x in res if not x["ok"]]
    for x in bad:
        print("REPRODUCED:", json.dumps(x)[:700])
    return 1 if bad else 0


def tiny_relation(ctx, mode, configs, nproc=12):
    """Leg (a): the gadget relation on EVERY tuple over a tiny field (GadgetTiny.tla accepted set = accepted set of the Go gadget in the test engine)."""
    total = 0
    try:
        ctx.build_harness(tags=("g_merkle",))
    except Infra as e:
        # this leg is written against the InsertionProof / DeletionProof gadget structs; if their API was refactored it cannot be
        # compiled — the other legs (full circuits) do not depend on it.  Any OTHER compile error is a bug of the harness itself.
        if "prover." not in str(e):
            raise
        ctx.cov["tiny_field_relation"] = "skipped: gadget-level driver does not compile against this tree (%s)" % str(e).splitlines()[-1][:160]
        return 0
    for p, d, b in configs:
        c = ('SPECIFICATION Spec\nCONSTANTS FieldMode = "small"\nP = %d\nDepth = %d\nBatch = %d\nKind = "%s"\nSample = FALSE\nHintMutant = "none"\nINVARIANTS Export\nCHECK_DEADLOCK FALSE\n' % (p, d, b, mode))
        r = ctx.tlc("GadgetTiny", c, label="GadgetTiny %s F_%d depth=%d batch=%d (all tuples)" % (mode, p, d, b), timeout=3000, heap="24g")
        acc = r["traces"]
        jobs = [dict(p=p, depth=d, batch=b, kind=mode, accepted=acc, part=k, parts=nproc) for k in range(nproc)]
        with ThreadPoolExecutor(nproc) as ex:
            results = list(ex.map(lambda j: ctx.run_vh(["gadget-tiny"], j, timeout=3000, tags=("g_merkle",)), jobs))
        ev = 0
        for res in results:
            for x in res:
                ev += x["observed"]["evaluated"]
                if not x["ok"]:
                    ctx.violation(x["detail"], dict(kind="gadget-tiny", cases=dict(x["case"], accepted=acc)))
        nvars = (1 if mode == "insertion" else b) + 2 + b + b * d
        if ev != p ** nvars:
            raise Infra("gadget-tiny evaluated %d of %d tuples" % (ev, p ** nvars))
        total += ev
        ctx.cov.setdefault("tiny_field_relation", {})["F_%d d=%d b=%d" % (p, d, b)] = dict(tuples=ev, accepted=len(acc))
    return total


def end_to_end(ctx, mode, behaviours, n):
    """Histories through the whole system: real off-chain tree -> helper hash -> JSON -> HTTP prover service -> proof verified against the
    on-chain hash formula -> contract root advances iff MTB.tla applies the batch."""
    cand = [t for t in behaviours if t["depth"] == 2 and t["batchSize"] == 2 and all(isinstance(o["batch"]["start"], dict) and o["batch"]["start"]["cls"] == "abs" for o in t["ops"])]
    acc = [t for t in cand if t["ops"][-1]["accept"]][: n // 2]
    rej = [t for t in cand if not t["ops"][-1]["accept"]][: n - len(acc)]
    pick = acc + rej
    if not pick:
        return 0
    res = ctx.run_vh(["e2e"], dict(behaviours=pick), timeout=3000)
    if len(res) != len(pick):
        raise Infra("e2e returned %d results for %d behaviours" % (len(res), len(pick)))
    for x in res:
        if not x["ok"]:
            ctx.violation("end-to-end (%s): %s: %s" % (mode, x["id"], x.get("detail")), dict(kind="e2e", cases=x.get("case")))
    ctx.cov["end_to_end_histories"] = len(pick)
    return len(pick)


def hint_level(ctx, mode):
    """Constraint-level relation with the prover-chosen wires explicit (digits, is-zero inverse): for EVERY tuple and EVERY hint assignment over a tiny
    field, the constraints are satisfiable iff the batch is valid (TLC, exhaustive); two constraint-dropping mutants must be refuted."""
    hc = lambda p, mut: ('SPECIFICATION Spec\nCONSTANTS FieldMode = "small"\nP = %d\nDepth = 1\nBatch = 1\nKind = "%s"\nSample = FALSE\nHintMutant = "%s"\nINVARIANTS HintSoundComplete\nCHECK_DEADLOCK FALSE\n' % (p, mode, mut))
    for p in ([5] if ctx.quick else [5, 7]):
        ctx.tlc("GadgetTiny", hc(p, "none"), label="GadgetTiny hint-level %s F_%d (all tuples x all prover-chosen wires)" % (mode, p), timeout=3000, heap="16g")
    ctx.expect_mutant_violates("GadgetTiny", hc(5, "nobool"), "GadgetTiny hint mutant nobool (%s)" % mode, timeout=900)
    if mode == "deletion":
        ctx.expect_mutant_violates("GadgetTiny", hc(5, "noam"), "GadgetTiny hint mutant noam (deletion)", timeout=900)
    # the same question asked of the real compiled R1CS over F_47: structured sample of tuples with GadgetTiny's verdict, every
    # output of the bit-decomposition hint x candidate is-zero inverses tried against each rejected tuple
    try:
        ctx.build_harness(tags=("g_merkle",))
    except Infra as e:
        if "prover." not in str(e):
            raise
        ctx.cov["hint_level_r1cs"] = "skipped: gadget-level driver does not compile against this tree"
        return
    sc = 'SPECIFICATION Spec\nCONSTANTS FieldMode = "small"\nP = 47\nDepth = 1\nBatch = 1\nKind = "%s"\nSample = TRUE\nHintMutant = "none"\nINVARIANTS Export\nCHECK_DEADLOCK FALSE\n' % mode
    uniq = ctx.tlc("GadgetTiny", sc, label="GadgetTiny sample over F_47 (%s)" % mode, timeout=900)["traces"]
    acc = [i for i in uniq if i["accept"]]
    rej = [i for i in uniq if not i["accept"]]
    if not acc or not rej:
        raise Infra("GadgetTiny F_47 sample has %d accepted / %d rejected tuples" % (len(acc), len(rej)))
    r = rng(ctx, "hints47")
    r.shuffle(rej)
    # consistent batches for the leaf that idx + P (a second boolean decomposition of the index) addresses come first: they are few and are
    # exactly what a circuit with a non-unique index decomposition accepts
    rej.sort(key=lambda i: 0 if (i["t"].get("cls") == "alias" and i["t"].get("consistent")) else 1)
    nrej = (24 if mode == "deletion" else 120) if ctx.quick else (len(rej) if mode == "insertion" else 160)
    chosen = acc + rej[:nrej]
    jobs = [dict(kind=mode, depth=1, allInv=(not ctx.quick), items=chosen[i::12]) for i in range(12) if chosen[i::12]]
    with ThreadPoolExecutor(12) as ex:
        results = list(ex.map(lambda j: ctx.run_vh(["gadget-hints"], j, timeout=3000, tags=("g_merkle",)), jobs))
    tried = 0
    n = 0
    for res in results:
        for x in res:
            n += 1
            tried += x["observed"]["hint_assignments_tried"]
            if not x["ok"]:
                ctx.violation(x["detail"], dict(kind="gadget-hints", cases=x["case"]))
    if n != len(chosen):
        raise Infra("gadget-hints returned %d results for %d tuples" % (n, len(chosen)))
    ctx.cov["hint_level_r1cs"] = dict(field=47, accepted_tuples=len(acc), rejected_tuples=len(chosen) - len(acc), hint_assignments_tried=tried)
