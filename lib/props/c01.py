"""C01 — insertion circuit accepts exactly valid appends into empty leaves (DESIGN.md §5 C01)."""
import mtblib

LEVEL = "model_checking"
MODE = "insertion"


def run(ctx):
    ctx.assumptions += [
        "symbolic instance: Poseidon is collision-free (free constructor); index arithmetic in F_47 with 5 standing for 32 index bits (2^Depth < 2^(Depth+1) <= 2^IdxBits < P as at BN254)",
        "gnark's R1CS builder/solver implement ToBinary (prover-chosen digits, booleanity, recomposition), Select, IsZero, Or as transcribed; non-boolean digits are excluded by the booleanity constraints (checked in tiny fields by C06)",
        "Groth16 soundness: satisfiability of the R1CS is what a proof attests",
    ]
    mtblib.model_check(ctx, MODE)
    if ctx.quick:
        beh = mtblib.generate(ctx, MODE, [(1, 1), (2, 2)], 1, ("a",), sample=90)
        share = 0.25
    else:
        beh = mtblib.generate(ctx, MODE, [(1, 1), (2, 1), (2, 2), (3, 2)], 1, ("a", "b"), sample=1500)
        beh += mtblib.generate(ctx, MODE, [(2, 2), (2, 3), (3, 2)], 3, ("a", "b"), sample=1200, simulate=6000)
        share = 0.3
    # insertion trees deeper than 32 levels exist (no build-time limit): positions >= 2^32 are in the tree, but a start index there has no
    # 32-bit encoding — MTBBig.tla's abstract meaning says such a batch cannot be asked for, the circuit must refuse it
    big_dims = ([(32, 2), (33, 1), (40, 1)] if MODE == "insertion" else [(31, 2)]) if ctx.quick else \
        ([(32, 2), (32, 1), (31, 2), (20, 2), (16, 2), (8, 2), (33, 1), (33, 2), (40, 1), (48, 2)] if MODE == "insertion" else [(31, 2), (31, 1), (20, 2), (16, 2), (8, 2)])
    beh += mtblib.generate_big(ctx, MODE, big_dims, sample=40 if ctx.quick else 400)
    n, acc = mtblib.replay(ctx, "C01", MODE, beh, share)
    mtblib.hint_level(ctx, MODE)
    mtblib.end_to_end(ctx, MODE, beh, 8 if ctx.quick else 60)
    tiny = mtblib.tiny_relation(ctx, MODE, [(7, 1, 1)] if ctx.quick else [(7, 1, 1), (11, 1, 1), (13, 1, 1), (7, 1, 2)] + ([(5, 1, 2)] if MODE == "deletion" else []))
    ctx.cov["tiny_field_tuples"] = tiny
    ctx.samples += [beh[0]["ops"][-1], beh[-1]["ops"][-1]]
    ctx.traces_validated = n
    ctx.evaluations = n
    ctx.cov["accepted_batches"] = acc
    ctx.cov["rejected_batches"] = n - acc
    ctx.cov["rule"] = ("TLC explores every adversarial insertion batch (start in range / last leaf / past the end / >= 2^IdxBits / wrapping; commitments; genuine, stale, "
                       "corrupted, reused paths; post-root candidates) over all trees reachable by insertions and deletions, one step per circuit round, asserting "
                       "accept <=> valid. Behaviours (honest prefix + one batch with <= k deviations) are concretised over BN254 and the real circuit (test engine, "
                       "compiled R1CS with honest and dishonest hints) must return the spec's verdict")


def replay(ctx, path):
    return mtblib.replay_file(ctx, path)
