"""C03 — the public input is Keccak of the canonical on-chain packing (DESIGN.md §5 C03)."""
import copy, json
from concurrent.futures import ThreadPoolExecutor
from vlib import Infra, rng
from props import c08

LEVEL = "model_checking"
R = c08.R


def case_of(w):
    return dict(mode=w["mode"], start=int(w["start"]), idxs=[int(i) for i in w["idxs"]], pre=int(w["pre"]), post=int(w["post"]), ids=[int(i) for i in w["ids"]] if w["mode"] == "insertion" else [])


def run(ctx):
    ctx.assumptions += [
        "Keccak-256 is collision-free: Packing.tla shows the packing is injective (BytesInjective) and the circuit's bit string is the on-chain byte string (PackingAgrees); different batches then hash differently",
        "the dishonest prover is modelled by replacing gnark's bits.NBits hint in the R1CS solver; ReducedCheck.tla (C06) shows at the model level that no digit vector other than the canonical one is accepted",
    ]
    # design level (also run by C06/C08): canonical encodings only; packing permutation for batch 0..8 in both modes
    small = []
    for b in range(0, 9):
        small.append(dict(mode="insertion", start=b, pre=1000 + b, post=2000 + b, ids=[3000 + i for i in range(b)]))
        small.append(dict(mode="deletion", idxs=[7 * i + b for i in range(b)], pre=R - 1 - b, post=256 ** 31 + b))
    hs0 = c08.spec_hashes(ctx, small, "PackingMC permutation batch 0..8")
    if len(hs0) != len(small):
        raise Infra("PackingMC permutation run returned %d of %d" % (len(hs0), len(small)))
    # code side: valid witnesses (one- and multi-block hash inputs, value classes, extreme indices)
    # hash inputs of one, two, three and more Keccak blocks (136 bytes each): insertion 4+64+32b bytes, deletion 64+4b bytes
    dims = [["insertion", 2, 2, "rand"], ["insertion", 2, 3, "rand"], ["deletion", 2, 2, "rand"], ["deletion", 5, 18, "rand"],
            ["insertion", 3, 7, "rand"], ["deletion", 2, 53, "rand"], ["insertion", 33, 1, "beyond32"], ["insertion", 40, 2, "beyond32"]]
    if not ctx.quick:
        dims += [["insertion", 1, 1, "rand"], ["insertion", 3, 4, "rand"], ["insertion", 32, 1, "lastleaf"], ["insertion", 4, 8, "lastleaf"], ["deletion", 31, 2, "maxpad"],
                 ["deletion", 3, 3, "rand"], ["deletion", 6, 19, "rand"], ["insertion", 16, 2, "rand"], ["insertion", 4, 12, "rand"], ["insertion", 4, 16, "rand"],
                 ["deletion", 3, 87, "rand"], ["deletion", 2, 120, "rand"]]
    ws = ctx.run_vh(["c03-gen"], dict(dims=dims), timeout=1200)
    if len(ws) != len(dims):
        raise Infra("c03-gen returned %d witnesses" % len(ws))
    cases, plan = [], []
    beyond = [w for w in ws if int(w["start"] or 0) >= 2 ** 32]
    ws = [w for w in ws if w not in beyond]
    for w in ws:
        base = case_of(w)
        fields = [("pre", None), ("post", None)] + ([("start", None)] + [("ids", i) for i in range(len(base["ids"]))] if w["mode"] == "insertion" else [("idxs", i) for i in range(len(base["idxs"]))])
        if len(fields) > 14:
            # large batches: roots, start, and positions in every Keccak block (first, second, middle, last two, three random)
            arr = [x for x in fields if x[1] is not None]
            keep = {0, 1, len(arr) // 2, len(arr) - 2, len(arr) - 1} | set(rng(ctx, "c03-" + w["id"]).sample(range(len(arr)), 3))
            fields = [x for x in fields if x[1] is None] + [arr[k] for k in sorted(keep)]
        entries = [("base", base, None)]
        for f, i in fields:
            c = copy.deepcopy(base)
            wide = f in ("pre", "post", "ids")
            cur = c[f] if i is None else c[f][i]
            new = (cur + 1) % (R if wide else 2 ** 32)
            if i is None:
                c[f] = new
            else:
                c[f][i] = new
            entries.append(("perturb %s%s+1" % (f, "" if i is None else "[%d]" % i), c, None))
            if wide:
                # forged encodings: v + k*r < 2^256
                ks = [k for k in range(1, 6) if cur + k * R < 2 ** 256]
                for k in (ks if not ctx.quick else ks[:1] + ks[-1:]):
                    fc = copy.deepcopy(base)
                    if i is None:
                        fc[f] = cur + k * R
                    else:
                        fc[f][i] = cur + k * R
                    entries.append(("forge %s%s+%dr" % (f, "" if i is None else "[%d]" % i, k), fc, dict(value=cur, forged=cur + k * R)))
        if base["pre"] != base["post"]:
            sw = copy.deepcopy(base)
            sw["pre"], sw["post"] = sw["post"], sw["pre"]
            entries.append(("swap pre/post", sw, None))
        plan.append((w, entries))
        cases += [e[1] for e in entries]
    hs = c08.spec_hashes(ctx, cases, "PackingMC witnesses, perturbations, forged encodings")
    items = []
    for w, entries in plan:
        claims = []
        base_hash = None
        for what, c, forge in entries:
            t = hs.get(c08.key_of_case(c))
            if t is None:
                raise Infra("no spec hash for " + what)
            if what == "base":
                base_hash = int(t["hash"])
                if not t["ok"]:
                    raise Infra("spec says a valid witness is not canonically encodable")
                claims.append(dict(hash=t["hash"], accept=True, what="hash of the on-chain packing"))
                claims.append(dict(hash=str((base_hash + 1) % R), accept=False, what="hash + 1"))
                claims.append(dict(hash=str((base_hash - 1) % R), accept=False, what="hash - 1"))
                claims.append(dict(hash=str(base_hash + R), accept=True, what="hash + r (same field element)") if base_hash + R < 2 ** 256 else dict(hash=t["hash"], accept=True, what="hash"))
            elif forge:
                if t["ok"]:
                    raise Infra("spec accepts a forged encoding as canonical")
                claims.append(dict(hash=t["hash"], accept=False, what=what + ": hash of the forged bytes, digits supplied by a dishonest hint", forged=str(forge["forged"]), value=str(forge["value"])))
            else:
                if int(t["hash"]) == base_hash:
                    raise Infra("perturbation does not change the spec hash: " + what)
                # the original witness against the hash of the perturbed batch
                claims.append(dict(hash=t["hash"], accept=False, what=what + ": hash of a different batch"))
        # 32-bit fields: a value >= 2^32 written directly into the witness
        w2 = copy.deepcopy(w)
        if w["mode"] == "insertion":
            w2["start"] = str(int(w["start"]) + 2 ** 32)
        else:
            w2["idxs"][0] = str(int(w["idxs"][0]) + 2 ** 32)
        claims.append(dict(hash=str(base_hash), accept=False, what="index + 2^32 in the witness, hash of the 32-bit truncation", witness=w2))
        items.append(dict(w=w, claims=claims, r1cs=True))
    # batches at positions >= 2^32 of a tree deeper than 32 levels: whatever hash is offered — in particular the hash of the packing with
    # the index truncated to 32 bits — the circuit must refuse (Packing.tla: the start index has no canonical 4-byte encoding)
    if beyond:
        tr = [dict(case_of(w), start=int(w["start"]) % 2 ** 32) for w in beyond]
        th = c08.spec_hashes(ctx, tr, "PackingMC truncated start index")
        for w, c in zip(beyond, tr):
            t = th[c08.key_of_case(c)]
            hv = int(t["hash"])
            items.append(dict(w=w, r1cs=False, claims=[
                dict(hash=str(hv), accept=False, what="start index >= 2^32 in a depth-%d tree, hash of the packing with the index truncated to 32 bits" % w["depth"]),
                dict(hash=str((hv + 1) % R), accept=False, what="start index >= 2^32, truncated hash + 1"),
                dict(hash="0", accept=False, what="start index >= 2^32, hash 0")]))
    with ThreadPoolExecutor(len(items)) as ex:
        results = list(ex.map(lambda it: ctx.run_vh(["c03"], dict(items=[it]), timeout=3000), items))
    n = 0
    for res in results:
        for x in res:
            n += 1
            if not x["ok"]:
                ctx.violation("public-input binding: %s" % x.get("detail"), dict(kind="c03", cases=x.get("case")))
    want = sum(len(it["claims"]) for it in items)
    if n != want:
        raise Infra("c03 harness returned %d verdicts for %d claims" % (n, want))
    ctx.samples += [dict(witness=items[0]["w"]["id"], claims=[(c["what"], c["accept"]) for c in items[0]["claims"][:6]])]
    ctx.traces_validated = n
    ctx.evaluations = n
    ctx.cov["witnesses"] = [w["id"] for w in ws]
    ctx.cov["rule"] = ("PackingMC.tla (PackingAgrees, HashAgrees, BytesInjective, canonical field encodings) over batch sizes 0..8 and over the values of code-produced valid witnesses; "
                       "for each witness the real circuit must accept with the spec's hash (and hash + r) and reject hash +- 1, the hash of every single-field perturbation and of the "
                       "pre/post swap, every forged encoding v + k*r of every 256-bit field with the bit-decomposition hint replaced, and an index >= 2^32")


def replay(ctx, path):
    case = json.load(open(path))
    res = ctx.run_vh(["c03"], case["cases"], timeout=3000)
    bad = [x for x in res if not x["ok"]]
    for x in bad:
        print("REPRODUCED:", json.dumps(x)[:700])
    return 1 if bad else 0
