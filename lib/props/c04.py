"""C04 — in-circuit Keccak-256 / SHA3-256 equal the standard functions (DESIGN.md §5 C04)."""
import json
from concurrent.futures import ThreadPoolExecutor
from vlib import Infra

LEVEL = "model_checking"
TRIVIAL = "INIT Init\nNEXT Next\n"


def cfg(lens, contents, doms=("keccak", "sha3"), padmode="impl", export=True):
    return ("SPECIFICATION Spec\nCONSTANTS Lens = {%s}\nContents = {%s}\nDoms = {%s}\nPadMode = \"%s\"\nINVARIANTS PaddingAgrees BlockCount%s\nCHECK_DEADLOCK FALSE\n"
            % (", ".join(map(str, lens)), ", ".join('"%s"' % c for c in contents), ", ".join('"%s"' % d for d in doms), padmode,
               " Export" if export else ""))


def run(ctx):
    ctx.assumptions += [
        "Keccak.tla derives round constants and rotation offsets from FIPS 202 and is pinned by known-answer tests; per run the harness also compares every spec digest with golang.org/x/crypto/sha3 (disagreement = spec bug, exit 2)",
        "gnark's test engine / R1CS solver implement the frontend.API semantics (Xor, And, Sub on bits)",
    ]
    ctx.tlc("KeccakKAT", TRIVIAL, workers=1, label="KeccakKAT")
    prod = [68 + 32 * b for b in (1, 2, 3, 4, 8)] + [64 + 4 * b for b in (1, 2, 18, 19, 35)]
    if ctx.quick:
        # padding arithmetic for EVERY byte length over three blocks (no permutation needed: content-free)
        lens_full = [0, 1, 55, 134, 135, 136, 137, 271, 272, 273] + prod[:3] + prod[5:8]
        contents = ["zero", "rnd1", "last"]
    else:
        lens_full = list(range(0, 3 * 136 + 9)) + prod
        contents = ["zero", "ones", "first", "last", "boundary", "rnd1", "rnd2"]
    lens_full = sorted(set(lens_full))
    ctx.expect_mutant_violates("KeccakMC", cfg([134, 135, 136], ["zero"], padmode="floor+1", export=False), "KeccakMC mutant floor+1 (extra block at 135 mod 136)")
    # digests: machine behaviours
    r = ctx.tlc("KeccakMC", cfg(lens_full, contents), label="KeccakMC digests", timeout=3000, heap="16g")
    cases = r["traces"]
    if len(cases) != len(lens_full) * len(contents) * 2:
        raise Infra("expected %d behaviours, got %d" % (len(lens_full) * len(contents) * 2, len(cases)))
    r1cs_lens = set([0, 135, 136] + prod[:1] + prod[5:6]) if ctx.quick else set([0, 1, 135, 136, 137, 271, 272] + prod)
    seen_r1cs = set()
    for c in cases:
        k = (c["len"], c["dom"])
        if c["len"] in r1cs_lens and c["content"] == "rnd1" and k not in seen_r1cs:
            c["r1cs"] = True
            seen_r1cs.add(k)
    # replay in parallel processes (the test engine is single-threaded and uses package-level counters)
    nproc = 12
    chunks = [cases[i::nproc] for i in range(nproc)]
    with ThreadPoolExecutor(nproc) as ex:
        results = list(ex.map(lambda ch: ctx.run_vh(["c04"], dict(cases=ch), timeout=3000, tags=("g_keccak",)) if ch else [], chunks))
    n = 0
    nested = 0
    for res in results:
        for x in res:
            if x.get("kind") == "spec-vs-reference":
                raise Infra("spec digest differs from x/crypto/sha3 (spec bug): %s" % json.dumps(x)[:300])
            if x.get("kind") == "keccak-nested":
                nested += 1
            else:
                n += 1
            if not x["ok"]:
                ctx.violation("Keccak gadget disagrees with Keccak.tla: %s expected=%s observed=%s (%s)" % (x["id"], x.get("expected"), x.get("observed"), x.get("detail")),
                              dict(kind="c04", cases=x.get("case")))
    if n != len(cases):
        raise Infra("harness returned %d results for %d cases" % (n, len(cases)))
    ctx.samples += [dict(len=c["len"], content=c["content"], dom=c["dom"], digest=bytes(c["digest"]).hex()) for c in cases[:4]]
    ctx.traces_validated = n
    ctx.evaluations = n
    ctx.cov["lengths"] = len(lens_full)
    ctx.cov["r1cs_cases"] = len(seen_r1cs)
    ctx.cov["nested_window_circuits"] = nested
    ctx.cov["rule"] = ("behaviours of the sponge machine KeccakMC.tla for every (byte length, content class, domain) of the tier; the spec's digest must be "
                       "the gadget's output in the test engine (and in the compiled R1CS for boundary/production lengths) and a one-bit-different digest must be rejected")


def replay(ctx, path):
    case = json.load(open(path))
    res = ctx.run_vh(["c04"], case["cases"], tags=("g_keccak",))
    bad = [x for x in res if not x["ok"]]
    for x in bad:
        print("REPRODUCED:", json.dumps(x)[:600])
    return 1 if bad else 0
