"""C05 — in-circuit Poseidon equals the reference Poseidon (DESIGN.md §5 C05)."""
import json
from vlib import Infra, rng

LEVEL = "model_checking"
TRIVIAL_CFG = "INIT Init\nNEXT Next\nCONSTANTS FieldMode = \"bn254\"\nP = 7\n"

R = 21888242871839275222246405745257275088548364400416034343698204186575808495617


def mc_cfg(mode, p, chain=False):
    return ("SPECIFICATION Spec\nCONSTANTS FieldMode = \"%s\"\nP = %d\nInputs1 <- I1\nInputs2 <- I2\nMaxCalls <- MC\nChain = %s\n"
            "INVARIANTS MachineIsFunction CallsIndependent Export\nCHECK_DEADLOCK FALSE\n" % (mode, p, "TRUE" if chain else "FALSE"))


def run_module(i1, i2, maxcalls):
    return ("---- MODULE Run ----\nEXTENDS PoseidonMC\nI1 == %s\nI2 == %s\nMC == %d\n====\n" % (i1, i2, maxcalls))


def tla_set(xs):
    return "{" + ", ".join(xs) + "}"


def bn_values(ctx, n_rand):
    r = rng(ctx.seed, "c05")
    vals = [0, 1, 2, 3, R - 1, R - 2, 2, 2 ** 64, 2 ** 128, 2 ** 253, (2 ** 254 - 1) % R, int("55" * 31, 16), int("aa" * 31, 16),
            2 ** 200 + 1, 255, 256]
    vals += [r.randrange(R) for _ in range(n_rand)]
    out = []
    for v in vals:
        if v not in out:
            out.append(v)
    return out


def run(ctx):
    ctx.assumptions += [
        "BigField.java (java.math.BigInteger) implements modular arithmetic; cross-validated against native TLC integers on small primes (BigFieldCheck.tla)",
        "the frozen parameter set in PoseidonBN254.tla is the circomlib/iden3 one (pinned by the published Poseidon([1,2]) vector and, per run, by go-iden3-crypto)",
        "gnark's test engine / R1CS solver implement the frontend.API semantics",
    ]
    ctx.tlc("BigFieldCheck", TRIVIAL_CFG, workers=1, label="BigFieldCheck")
    ctx.tlc("PoseidonKAT", TRIVIAL_CFG, workers=1, label="PoseidonKAT")
    sessions_total = 0
    bad = 0

    groups = []

    def replay(mode, p, traces, r1cs):
        nonlocal sessions_total, bad
        if traces and (mode, str(p)) not in [(g["mode"], g["p"]) for g in groups]:
            groups.append(dict(mode=mode, p=str(p), r1cs=(mode == "bn254" or p == 47), sessions=traces[:6] + traces[-6:]))
        # chunk sessions so a single harness process does not run too long
        res = ctx.run_vh(["c05"], dict(mode=mode, p=str(p), r1cs=r1cs, sessions=traces), tags=("g_poseidon",))
        for x in res:
            if x.get("kind") == "spec-vs-reference":
                raise Infra("spec-vs-reference disagreement (spec bug): %s" % json.dumps(x)[:400])
            sessions_total += 1
            if not x["ok"]:
                bad += 1
                ctx.violation("Poseidon gadget disagrees with Poseidon.tla: %s expected=%s observed=%s (%s)" % (
                    x["id"], x.get("expected"), x.get("observed"), x.get("detail")),
                    dict(kind="c05", cases=x.get("case")))
        if traces and len(ctx.samples) < 6:
            ctx.samples.append(dict(mode=mode, p=str(p), session=traces[0]))

    # (i) exhaustive over tiny primes: all singletons and all pairs, single-call sessions
    primes = [7, 13] if ctx.quick else [7, 11, 13, 17, 23, 47]
    for p in primes:
        i1 = "0..%d" % (p - 1)
        i2 = "(0..%d) \\X (0..%d)" % (p - 1, p - 1)
        r = ctx.tlc("Run", mc_cfg("small", p), files={"Run.tla": run_module(i1, i2, 1)}, label="PoseidonMC small p=%d" % p, timeout=900)
        if len(r["traces"]) != p * p + p:
            raise Infra("expected %d behaviours for p=%d, got %d" % (p * p + p, p, len(r["traces"])))
        replay("small", p, r["traces"], r1cs=(p == 47))
    if ctx.quick:
        # compiled tiny-field R1CS (gnark only supports the modulus 47 there): a candidate subset
        r = ctx.tlc("Run", mc_cfg("small", 47), files={"Run.tla": run_module("{0, 1, 46}", "{0, 1, 2, 23, 46} \\X {0, 1, 46}", 1)},
                    label="PoseidonMC small p=47 subset", timeout=900)
        replay("small", 47, r["traces"], r1cs=True)
    # multi-call sessions in a tiny field (aliasing between calls): all ordered pairs over a candidate subset
    p = 13
    i1 = "{0, 5}"
    i2 = "{<<0,0>>, <<1,2>>, <<2,1>>, <<12,12>>}"
    r = ctx.tlc("Run", mc_cfg("small", p), files={"Run.tla": run_module(i1, i2, 2 if ctx.quick else 3)}, label="PoseidonMC sessions p=13", timeout=900)
    replay("small", p, r["traces"], r1cs=False)
    # chained sessions: digests fed into later hashes and used again (Merkle path / empty-subtree chain), tiny field + BN254 R1CS
    r = ctx.tlc("Run", mc_cfg("small", 47, chain=True), files={"Run.tla": run_module("{3}", "{<<1, 2>>}", 3)}, label="PoseidonMC chained sessions p=47", timeout=900)
    replay("small", 47, r["traces"], r1cs=not ctx.quick)
    r = ctx.tlc("Run", mc_cfg("bn254", 7, chain=True), files={"Run.tla": run_module('{"0"}', '{<<"1", "2">>}', 2 if ctx.quick else 3)}, label="PoseidonMC chained sessions bn254", timeout=900)
    replay("bn254", R, r["traces"], r1cs=True)
    # (ii) BN254: value classes as singletons and pairs; call sequences
    vals = bn_values(ctx, 4 if ctx.quick else 24)
    s = lambda v: '"%d"' % v
    r_ = rng(ctx.seed, "c05pairs")
    pairs = [(a, b) for a in vals[:8] for b in vals[:8]] if not ctx.quick else [(a, b) for a in vals[:5] for b in vals[:5]]
    pairs += [(r_.choice(vals), r_.choice(vals)) for _ in range(20 if ctx.quick else 200)]
    pairs = list(dict.fromkeys(pairs))
    i1 = tla_set(s(v) for v in vals)
    i2 = tla_set("<<%s,%s>>" % (s(a), s(b)) for a, b in pairs)
    r = ctx.tlc("Run", mc_cfg("bn254", 7), files={"Run.tla": run_module(i1, i2, 1)}, label="PoseidonMC bn254 single calls", timeout=1500)
    replay("bn254", R, r["traces"], r1cs=False)
    # sessions of 2..3 calls at BN254 incl. repeated / permuted inputs, engine + compiled R1CS
    i1 = tla_set(s(v) for v in [0, vals[-1]])
    i2 = tla_set("<<%s,%s>>" % (s(a), s(b)) for a, b in [(1, 2), (2, 1), (0, 0), (R - 1, vals[-2])])
    r = ctx.tlc("Run", mc_cfg("bn254", 7), files={"Run.tla": run_module(i1, i2, 2)}, label="PoseidonMC bn254 sessions", timeout=1500)
    replay("bn254", R, r["traces"] if not ctx.quick else r["traces"][:12], r1cs=True)
    # mixed-field sessions: the same behaviours, several fields interleaved in ONE process, each field taking its turn at being the first
    # the process evaluates (process-wide caches keyed by arity, sync.Once initialisers)
    for k in range(len(groups)):
        order = groups[k:] + groups[:k]
        res = ctx.run_vh(["c05-mixed"], dict(groups=order), tags=("g_poseidon",))
        for x in res:
            sessions_total += 1
            if not x["ok"]:
                ctx.violation("Poseidon gadget disagrees with Poseidon.tla: %s (%s)" % (x["id"], x.get("detail")), dict(kind="c05-mixed", cases=x.get("case")))
    ctx.cov["mixed_field_orders"] = [[g["p"] for g in groups[k:] + groups[:k]] for k in range(len(groups))]
    ctx.traces_validated = sessions_total
    ctx.evaluations = sessions_total
    ctx.cov["rule"] = ("every behaviour of PoseidonMC (inputs chosen by TLC, outputs computed by the round machine) replayed into the Go gadgets "
                       "Poseidon1/Poseidon2: exhaustive over F_p for tiny primes (all singletons and pairs), value classes and call sessions at BN254")
    ctx.cov["exhaustive_small_fields"] = primes


def replay(ctx, path):
    case = json.load(open(path))
    res = ctx.run_vh(["c05-mixed" if case.get("kind") == "c05-mixed" else "c05"], case["cases"], tags=("g_poseidon",))
    bad = [x for x in res if not x["ok"]]
    for x in bad:
        print("REPRODUCED:", json.dumps(x)[:600])
    return 1 if bad else 0
