"""C06 — bit-encoding gadgets: canonical representative, big-endian bytes (DESIGN.md §5 C06)."""
import json
from concurrent.futures import ThreadPoolExecutor
from vlib import Infra

LEVEL = "model_checking"
INV_WALK = "FlagsTrackComparison OnlyCanonical CmpIsInteger ShortInputUnconstrained"
INV_VEC = INV_WALK + " EmittedIsBigEndian RecomposeIsValue Export"


def cfg(mode, p, n, how, vectors="all", variant="code", inv=INV_WALK):
    return ("SPECIFICATION Spec\nCONSTANTS FieldMode = \"%s\"\nP = %d\nN = %d\nMode = \"%s\"\nVectors = \"%s\"\nVariant = \"%s\"\nINVARIANTS %s\nCHECK_DEADLOCK FALSE\n"
            % (mode, p, n, how, vectors, variant, inv))


def run(ctx):
    ctx.assumptions += [
        "gnark's ToBinary = n prover-chosen digits (hint bits.NBits), each asserted boolean, recomposition asserted equal to the input (observed through the test engine and through the R1CS solver with the hint REPLACED by the spec's digit vector)",
        "lexicographic comparison of equal-length bit strings MSB-first is integer comparison (ghost variable cmp; tied to integer value exhaustively for small fields)",
    ]
    # 1. design level. BN254, n = 256: ALL digit vectors (boolean and non-boolean) by state merging; mutants refuted
    ctx.tlc("ReducedCheck", cfg("bn254", 7, 256, "walk"), label="ReducedCheck walk BN254 n=256 (all 3^256 digit vectors, merged)")
    ctx.tlc("ReducedCheck", cfg("bn254", 7, 32, "walk"), label="ReducedCheck walk BN254 n=32 (short input)")
    for v in ("start-late", "accept-eq", "swap"):
        ctx.expect_mutant_violates("ReducedCheck", cfg("bn254", 7, 256, "walk", variant=v), "ReducedCheck mutant " + v)
    small = [(5, 8), (7, 8), (13, 8), (47, 8), (251, 8)] if ctx.quick else \
        [(p, 8) for p in (3, 5, 7, 11, 13, 17, 19, 23, 29, 31, 37, 41, 43, 47, 53, 59, 61, 251)] + [(257, 16), (65521, 16), (47, 16)]
    for p, n in small + [(257, 8)] + ([] if ctx.quick else [(65521, 24)]):
        ctx.tlc("ReducedCheck", cfg("small", p, n, "walk"), label="ReducedCheck walk p=%d n=%d" % (p, n))
    # 2. behaviours for replay
    batches = []
    r = ctx.tlc("ReducedCheck", cfg("bn254", 7, 256, "vec", vectors="classes", inv=INV_VEC), label="ReducedCheck classes BN254 n=256", timeout=900)
    if len(r["traces"]) < 1000:
        raise Infra("expected >= 1000 BN254 path classes, got %d" % len(r["traces"]))
    batches.append((r["traces"], True))
    for p, n in small:
        r = ctx.tlc("ReducedCheck", cfg("small", p, n, "vec", inv=INV_VEC), label="ReducedCheck vec p=%d n=%d" % (p, n), timeout=1800)
        if len(r["traces"]) != 2 ** n + 2 * n:
            raise Infra("p=%d n=%d: expected %d vectors, got %d" % (p, n, 2 ** n + 2 * n, len(r["traces"])))
        batches.append((r["traces"], p == 47))
    r = ctx.tlc("ReducedCheck", cfg("small", 65521, 24, "vec", vectors="classes", inv=INV_VEC), label="ReducedCheck classes p=65521 n=24")
    batches.append((r["traces"], False))
    jobs = []
    for cases, r1cs in batches:
        step = 4000
        for i in range(0, len(cases), step):
            jobs.append(dict(cases=cases[i:i + step], r1cs=r1cs))
    # mixed-field sessions: ONE process builds the gadgets over several fields in turn (both orders), so anything a gadget remembers
    # from the field it was first built over (cached modulus, cached constants) shows up as a disagreement with the per-field spec
    import random as _r
    rr = _r.Random(ctx.seed * 7919 + 6)
    picks = []
    for cases, r1cs in batches:
        acc = [c for c in cases if c["accept"]]
        rej = [c for c in cases if not c["accept"]]
        picks.append(rr.sample(acc, min(len(acc), 12)) + rr.sample(rej, min(len(rej), 12)))
    k = 3 if ctx.quick else 8
    for o in range(k):
        order = picks[:] if o == 0 else (picks[::-1] if o == 1 else rr.sample(picks, len(picks)))
        inter = [c for grp in order for c in grp[:8]] + [c for tup in zip(*[g[8:] for g in order if len(g) >= 24]) for c in tup]
        jobs.append(dict(cases=inter, r1cs=False))
    ctx.cov["mixed_field_sessions"] = k
    with ThreadPoolExecutor(12) as ex:
        results = list(ex.map(lambda j: ctx.run_vh(["c06"], j, timeout=3000, tags=("g_bits",)), jobs))
    n = 0
    total = sum(len(j["cases"]) for j in jobs)
    for res in results:
        for x in res:
            n += 1
            if not x["ok"]:
                ctx.violation("bit-encoding gadget disagrees with ReducedCheck.tla: %s: %s" % (x["id"], x.get("detail")), dict(kind="c06", cases=x.get("case")))
    if n != total:
        raise Infra("harness returned %d results for %d cases" % (n, total))
    structural_leg(ctx)
    tlaps_leg(ctx)
    ctx.samples += [dict(p=c["p"], n=c["n"], bits="".join(map(str, c["bits"]))[:80], accept=c["accept"], cmp=c["cmp"]) for c in (batches[0][0][:2] + batches[1][0][:2])]
    ctx.traces_validated = n
    ctx.evaluations = n
    ctx.cov["exhaustive_small"] = ["p=%d,n=%d" % pn for pn in small]
    ctx.cov["bn254_path_classes"] = len(batches[0][0])
    ctx.cov["rule"] = ("TLC scans every digit vector (merged) for BN254/256 and exports (a) one vector per path class of the BN254 scan graph (first difference at "
                       "bit k in either direction or a non-boolean digit at k, three fills, plus equality) and (b) every digit vector for tiny primes; each is replayed "
                       "into ReducedModRCheck / ToReducedBigEndian / FromBinaryBigEndian (test engine; R1CS with the NBits hint replaced for 47 and BN254)")


def replay(ctx, path):
    case = json.load(open(path))
    res = ctx.run_vh(["c06"], case["cases"], tags=("g_bits",))
    bad = [x for x in res if not x["ok"]]
    for x in bad:
        print("REPRODUCED:", json.dumps(x)[:600])
    return 1 if bad else 0


# ---------------------------------------------------------------------------------------------------------------------------
# structural leg: the extracted gate list of ReducedModRCheck_256 (fresh extraction and committed Lean model) is a trace of Define

def parse_gates(src, name):
    """gate list of `def <name>` in an extracted Lean file -> list of dict(op, args, out)"""
    import re as _re
    m = _re.search(r"^def %s .*?:=\n(.*?)\n\n" % _re.escape(name), src, _re.S | _re.M)
    if not m:
        return None
    gates = []
    clean = lambda a: {"(0:F)": "0", "(1:F)": "1"}.get(a, a)
    for line in m.group(1).splitlines():
        line = line.strip().rstrip("∧").strip()
        if line in ("True", ""):
            continue
        mm = _re.match(r"∃(gate_\d+), \1 = Gates\.(\w+) (.*)$", line)
        if mm:
            gates.append(dict(op=mm.group(2), args=[clean(a) for a in mm.group(3).split()], out=mm.group(1)))
            continue
        mm = _re.match(r"∃(gate_\d+), Gates\.(\w+) (.*) \1$", line)
        if mm:
            gates.append(dict(op=mm.group(2), args=[clean(a) for a in mm.group(3).split()], out=mm.group(1)))
            continue
        mm = _re.match(r"Gates\.(\w+) (.*)$", line)
        if mm:
            gates.append(dict(op=mm.group(1), args=[clean(a) for a in mm.group(2).split()], out=""))
            continue
        gates.append(dict(op="unparsed", args=[line[:80]], out=""))
    return gates


def emission(src, name, var):
    import re as _re
    m = _re.search(r"^def %s .*?:=\n(.*?)\n\n" % _re.escape(name), src, _re.S | _re.M)
    if not m:
        return None
    v = _re.search(r"vec!\[(.*)\]", m.group(1))
    if not v:
        return None
    idx = [int(x) for x in _re.findall(r"%s\[(\d+)\]" % _re.escape(var), v.group(1))]
    return [dict(op="emit", k=k, idx=i, n=len(idx), args=[], out="") for k, i in enumerate(idx)]


def structural_leg(ctx):
    import os, re as _re
    from vlib import REPO
    keep = os.path.join(ctx.scratch, "extracted-c06.lean")
    rec = ctx.run_vh(["art-extract"], dict(depth=3, batch=2, cli="", dir=ctx.scratch, keep=keep, prev=""))
    sources = {"fresh extraction of the current Go gadgets": open(keep).read() if os.path.exists(keep) else "",
               "committed Lean model": open(os.path.join(REPO, "formal-verification", "FormalVerification.lean")).read()}
    out = {}
    for label, src in sources.items():
        gates = parse_gates(src, "ReducedModRCheck_256")
        em = emission(src, "ToReducedBigEndian_256", "gate_0")
        if gates is None or em is None:
            out[label] = "definition not found"
            continue
        tf = os.path.join(ctx.scratch, "gates-%d.ndjson" % len(out))
        with open(tf, "w") as fh:
            for g in gates + em:
                g.setdefault("k", 0); g.setdefault("idx", 0); g.setdefault("n", 0)
                fh.write(json.dumps(g) + "\n")
        c = "SPECIFICATION Spec\nCONSTANTS N = 256\nCONSTRAINT HighWater\nPOSTCONDITION TraceAccepted\nCHECK_DEADLOCK FALSE\n"
        r = ctx.tlc("GateTrace", c, workers=1, dfs=True, env_extra={"TRACE_FILE": tf}, label="GateTrace ReducedModRCheck_256 (%s)" % label, allow_violation=True, timeout=600)
        m = _re.search(r'<<"HWM", (\d+), (\d+)>>', r["out"])
        if not m:
            raise Infra("GateTrace gave no high-water mark:\n" + "\n".join(r["out"].splitlines()[-20:]))
        hwm, total = int(m.group(1)), int(m.group(2))
        out[label] = "accepted: %d gates + %d emitted positions follow the ScanBit machine" % (len(gates), len(em)) if hwm == total + 1 else \
            "NOT this machine any more (first unexplained gate #%d: %s) — behavioural legs decide" % (hwm, json.dumps((gates + em)[hwm - 1])[:160])
        if hwm == total + 1:
            ctx.states += r["distinct"]
            ctx.transitions += r["generated"]
    ctx.cov["structural_gate_trace"] = out


def tlaps_leg(ctx):
    """Unbounded strengthening: TLAPS proves the scan invariant (flags track the comparison) for EVERY width and EVERY modulus digit function."""
    import os, re as _re, shutil, subprocess
    d = os.path.join(ctx.scratch, "tlaps")
    os.makedirs(d, exist_ok=True)
    shutil.copy(os.path.join(os.path.dirname(os.path.dirname(os.path.dirname(os.path.abspath(__file__)))), "specs", "ReducedCheckProof.tla"), d)
    try:
        r = subprocess.run(["tlapm", "--threads", "8", "ReducedCheckProof.tla"], cwd=d, capture_output=True, text=True, timeout=900)
    except (subprocess.TimeoutExpired, FileNotFoundError) as e:
        ctx.cov["tlaps"] = "not run: %s" % e
        return
    out = r.stdout + r.stderr
    m = _re.search(r"All (\d+) obligations proved", out)
    if not m:
        raise Infra("TLAPS could not re-check ReducedCheckProof.tla:\n" + "\n".join(out.splitlines()[-15:]))
    ctx.cov["tlaps"] = "ReducedCheckProof.tla: all %s obligations proved (scan invariant for arbitrary width and modulus)" % m.group(1)
