"""C06 — bit-encoding gadgets: canonical representative, big-endian bytes (DESIGN.md §5 C06)."""
import json
from concurrent.futures import ThreadPoolExecutor
from vlib import Infra

LEVEL = "model_checking"
INV_WALK = "FlagsTrackComparison OnlyCanonical CmpIsInteger ShortInputUnconstrained"
INV_VEC = INV_WALK + " EmittedIsBigEndian RecomposeIsValue Export"


def cfg(mode, p, n, how, vectors="all", variant="code", inv=INV_WALK):
    return ("SPECIFICATION Spec\nCONSTANTS FieldMode = \"%s\"\nP = %d\nN = %d\nMode = \"%s\"\nVectors = \"%s\"\nVariant = \"%s\"\nINVARIANTS %s\nCHECK_DEADLOCK FALSE\n"
            % (mode, p, n, how, vectors, variant, inv))


def run(ctx):
    ctx.assumptions += [
        "gnark's ToBinary = n prover-chosen digits (hint bits.NBits), each asserted boolean, recomposition asserted equal to the input (observed through the test engine and through the R1CS solver with the hint REPLACED by the spec's digit vector)",
        "lexicographic comparison of equal-length bit strings MSB-first is integer comparison (ghost variable cmp; tied to integer value exhaustively for small fields)",
    ]
    # 1. design level. BN254, n = 256: ALL digit vectors (boolean and non-boolean) by state merging; mutants refuted
    ctx.tlc("ReducedCheck", cfg("bn254", 7, 256, "walk"), label="ReducedCheck walk BN254 n=256 (all 3^256 digit vectors, merged)")
    ctx.tlc("ReducedCheck", cfg("bn254", 7, 32, "walk"), label="ReducedCheck walk BN254 n=32 (short input)")
    for v in ("start-late", "accept-eq", "swap"):
        ctx.expect_mutant_violates("ReducedCheck", cfg("bn254", 7, 256, "walk", variant=v), "ReducedCheck mutant " + v)
    small = [(5, 8), (7, 8), (13, 8), (47, 8), (251, 8)] if ctx.quick else \
        [(p, 8) for p in (3, 5, 7, 11, 13, 17, 19, 23, 29, 31, 37, 41, 43, 47, 53, 59, 61, 251)] + [(257, 16), (65521, 16), (47, 16)]
    for p, n in small + [(257, 8)] + ([] if ctx.quick else [(65521, 24)]):
        ctx.tlc("ReducedCheck", cfg("small", p, n, "walk"), label="ReducedCheck walk p=%d n=%d" % (p, n))
    # 2. behaviours for replay
    batches = []
    r = ctx.tlc("ReducedCheck", cfg("bn254", 7, 256, "vec", vectors="classes", inv=INV_VEC), label="ReducedCheck classes BN254 n=256", timeout=900)
    if len(r["traces"]) < 1000:
        raise Infra("expected >= 1000 BN254 path classes, got %d" % len(r["traces"]))
    batches.append((r["traces"], True))
    for p, n in small:
        r = ctx.tlc("ReducedCheck", cfg("small", p, n, "vec", inv=INV_VEC), label="ReducedCheck vec p=%d n=%d" % (p, n), timeout=1800)
        if len(r["traces"]) != 2 ** n + 2 * n:
            raise Infra("p=%d n=%d: expected %d vectors, got %d" % (p, n, 2 ** n + 2 * n, len(r["traces"])))
        batches.append((r["traces"], p == 47))
    r = ctx.tlc("ReducedCheck", cfg("small", 65521, 24, "vec", vectors="classes", inv=INV_VEC), label="ReducedCheck classes p=65521 n=24")
    batches.append((r["traces"], False))
    jobs = []
    for cases, r1cs in batches:
        step = 4000
        for i in range(0, len(cases), step):
            jobs.append(dict(cases=cases[i:i + step], r1cs=r1cs))
    with ThreadPoolExecutor(12) as ex:
        results = list(ex.map(lambda j: ctx.run_vh(["c06"], j, timeout=3000, tags=("g_bits",)), jobs))
    n = 0
    total = sum(len(j["cases"]) for j in jobs)
    for res in results:
        for x in res:
            n += 1
            if not x["ok"]:
                ctx.violation("bit-encoding gadget disagrees with ReducedCheck.tla: %s: %s" % (x["id"], x.get("detail")), dict(kind="c06", cases=x.get("case")))
    if n != total:
        raise Infra("harness returned %d results for %d cases" % (n, total))
    ctx.samples += [dict(p=c["p"], n=c["n"], bits="".join(map(str, c["bits"]))[:80], accept=c["accept"], cmp=c["cmp"]) for c in (batches[0][0][:2] + batches[1][0][:2])]
    ctx.traces_validated = n
    ctx.evaluations = n
    ctx.cov["exhaustive_small"] = ["p=%d,n=%d" % pn for pn in small]
    ctx.cov["bn254_path_classes"] = len(batches[0][0])
    ctx.cov["rule"] = ("TLC scans every digit vector (merged) for BN254/256 and exports (a) one vector per path class of the BN254 scan graph (first difference at "
                       "bit k in either direction or a non-boolean digit at k, three fills, plus equality) and (b) every digit vector for tiny primes; each is replayed "
                       "into ReducedModRCheck / ToReducedBigEndian / FromBinaryBigEndian (test engine; R1CS with the NBits hint replaced for 47 and BN254)")


def replay(ctx, path):
    case = json.load(open(path))
    res = ctx.run_vh(["c06"], case["cases"], tags=("g_bits",))
    bad = [x for x in res if not x["ok"]]
    for x in bad:
        print("REPRODUCED:", json.dumps(x)[:600])
    return 1 if bad else 0
