"""C07 — a returned proof verifies for exactly its own input hash and proving system (DESIGN.md §5 C07)."""
import json
from concurrent.futures import ThreadPoolExecutor
from vlib import Infra

LEVEL = "model_checking"
INS_CLASSES = ["valid", "wrong-post", "wrong-pre", "wrong-path", "wrong-hash", "forged-last", "occupied-last", "start-shifted", "start-out-of-range", "swapped-roots",
               "ids+1", "ids-1", "proofs+1", "proofs-1", "row+1", "row-1", "empty"]
DEL_CLASSES = ["valid", "wrong-post", "wrong-pre", "wrong-path", "wrong-leaf", "wrong-hash", "forged-last", "idx-too-high", "idx-shifted", "swapped-roots",
               "ids+1", "ids-1", "idxs+1", "idxs-1", "proofs+1", "proofs-1", "row+1", "row-1", "empty"]
CONG = ("own", "own+r", "own+2r", "own+4r", "own-r", "own-7r", "own+r*2^70")
CANDS = list(CONG) + ["neg-own", "neg-own-r", "own+1", "own-1", "other-batch", "random", "zero"]


def module(systems):
    modeof = " @@ ".join('("%s" :> "%s")' % (s["id"], s["mode"]) for s in systems)
    pc = '("insertion" :> {%s}) @@ ("deletion" :> {%s})' % (", ".join('"%s"' % c for c in INS_CLASSES), ", ".join('"%s"' % c for c in DEL_CLASSES))
    return ("---- MODULE ProverRun ----\nEXTENDS Prover\nSYS == {%s}\nMO == %s\nPC == %s\nHC == {%s}\n====\n"
            % (", ".join('"%s"' % s["id"] for s in systems), modeof, pc, ", ".join('"%s"' % c for c in CANDS)))


def cfg(maxproofs, maxsteps, export=False):
    return ("SPECIFICATION Spec\nCONSTANTS Systems <- SYS\nModeOf <- MO\nParamClasses <- PC\nHashCands <- HC\nMaxProofs = %d\nMaxSteps = %d\nINVARIANTS ExactlyOwn NoProofWithoutValidBatch%s\nCHECK_DEADLOCK FALSE\n"
            % (maxproofs, maxsteps, " Export" if export else ""))


def run(ctx):
    ctx.assumptions += [
        "Groth16 completeness and knowledge-soundness: 'rejected for every other public input' is exercised on neighbouring values, the hash of another batch, random values and 0, not proved",
        "two setups of equal dimensions are independent (fresh toxic waste), so a proof of one must not verify under the other",
    ]
    systems = [dict(id="ins22", kind="real", mode="insertion", depth=2, batch=2), dict(id="del22", kind="real", mode="deletion", depth=2, batch=2),
               dict(id="ins22b", kind="real", mode="insertion", depth=2, batch=2)]
    if not ctx.quick:
        systems += [dict(id="del22b", kind="real", mode="deletion", depth=2, batch=2), dict(id="ins32", kind="real", mode="insertion", depth=3, batch=2), dict(id="del21", kind="real", mode="deletion", depth=2, batch=1)]
    mod = {"ProverRun.tla": module(systems)}
    ctx.tlc("ProverRun", cfg(2, 3), files=mod, label="Prover mc (all Prove/Verify sequences <= 3, %d systems)" % len(systems), timeout=1800, heap="16g")
    # behaviours: every parameter class of every system once; every (verifier system, candidate) for proofs of every system
    beh = []
    for s in systems:
        classes = INS_CLASSES if s["mode"] == "insertion" else DEL_CLASSES
        steps = [dict(op="prove", sys=s["id"], cls="valid", batch=1, ok=True, token=1)]
        for v in systems:
            for c in CANDS:
                steps.append(dict(op="verify", sys=v["id"], token=1, cand=c, accept=(v["id"] == s["id"] and c in CONG)))
        beh.append(steps)
        inv = [c for c in classes if c != "valid"]
        for i in range(0, len(inv), 5):
            beh.append([dict(op="prove", sys=s["id"], cls=c, batch=k + 1, ok=False, token=0) for k, c in enumerate(inv[i:i + 5])])
    # plus TLC-simulated mixed sequences (interleaved proofs of several systems)
    n = 8 if ctx.quick else 80
    r = ctx.tlc("ProverRun", cfg(2, 8, export=True), files=mod, simulate="num=%d" % (n // 4 + 1), depth=9, workers=4, label="Prover behaviours")
    seen = set()
    for t in r["traces"]:
        k = json.dumps(t, sort_keys=True)
        if k not in seen and len(seen) < n:
            seen.add(k)
            beh.append(t)
    nproc = 4 if ctx.quick else 8
    chunks = [beh[i::nproc] for i in range(nproc)]
    with ThreadPoolExecutor(nproc) as ex:
        # chunk 0 also runs the simultaneous-Prove rounds (same process, same systems)
        results = list(ex.map(lambda ic: ctx.run_vh(["c07"], dict(systems=systems, behaviours=ic[1], concurrentRounds=(2 if ctx.quick else 10) if ic[0] == 0 else 0, concurrentWidth=6),
                                                    timeout=3400) if ic[1] else [], enumerate(chunks)))
    ctx.cov["concurrent_prove_rounds"] = (2 if ctx.quick else 10) * len(systems)
    total = 0
    for res in results:
        for x in res:
            if x.get("kind") == "prover-concurrent":
                if not x["ok"]:
                    ctx.violation("proving system: %s" % x.get("detail"), dict(kind="c07", cases=x.get("case")))
                continue
            total += 1
            if not x["ok"]:
                ctx.violation("proving system: %s: %s" % (x["id"], x.get("detail")), dict(kind="c07", cases=x.get("case")))
    if total != len(beh):
        raise Infra("c07 harness returned %d results for %d behaviours" % (total, len(beh)))
    ctx.samples += [beh[0][:6], beh[1]]
    ctx.traces_validated = total
    ctx.evaluations = sum(len(b) for b in beh)
    ctx.cov["systems"] = [s["id"] for s in systems]
    ctx.cov["rule"] = ("Prover.tla: Prove(system, parameter class) returns a proof iff the class is 'valid' (every invalid-batch kind and every wrong-dimension kind must yield an error and "
                       "no proof, without panicking); Verify(system', proof, candidate) accepts iff system' issued the proof and the candidate is congruent to its input hash — every "
                       "(issuing system, verifying system, candidate in own / own+kr / own+-1 / other batch / random / 0) combination on independently set-up real systems of both modes")


def replay(ctx, path):
    case = json.load(open(path))
    res = ctx.run_vh(["c07"], case["cases"], timeout=3400)
    bad = [x for x in res if not x["ok"]]
    for x in bad:
        print("REPRODUCED:", json.dumps(x)[:700])
    return 1 if bad else 0
