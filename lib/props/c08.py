"""C08 — off-chain input-hash helpers agree with circuit and on-chain packing (DESIGN.md §5 C08)."""
import json
from vlib import Infra, rng

LEVEL = "model_checking"
R = 21888242871839275222246405745257275088548364400416034343698204186575808495617
INV = "PackingAgrees Widths HashAgrees Export"


def val(cls, salt):
    if cls == "t1":            # ends in one zero byte
        return (256 ** 29 * (3 + salt % 50) + 1 + salt) * 256
    if cls == "t2":            # ends in two zero bytes
        return (256 ** 20 * (7 + salt % 50) + 1 + salt) * 65536
    if cls == "t31":           # a single non-zero top byte followed by 31 zero bytes
        return 256 ** 31 * (1 + salt % 40)
    if cls == 0:
        return 0
    if cls == 1:
        return 1 + salt % 250
    if cls == 32:
        return R - 1 - salt
    return 256 ** (cls - 1) * (1 + salt % 200) + salt


def tla_case(c):
    q = lambda v: '"%d"' % v
    return ('[mode |-> "%s", start |-> %s, idxs |-> <<%s>>, pre |-> %s, post |-> %s, ids |-> <<%s>>]'
            % (c["mode"], q(c.get("start", 0)), ", ".join(q(i) for i in c.get("idxs", [])), q(c["pre"]), q(c["post"]), ", ".join(q(i) for i in c.get("ids", []))))


def run_module(cases):
    return "---- MODULE PackRun ----\nEXTENDS PackingMC\nCS == {%s}\n====\n" % ",\n ".join(tla_case(c) for c in cases)


CFG = "SPECIFICATION Spec\nCONSTANTS Cases <- CS\nINVARIANTS %s\nCHECK_DEADLOCK FALSE\n" % INV


def spec_hashes(ctx, cases, label):
    """TLC evaluates PackingMC on the cases; returns {canonical-json(case) -> hash}."""
    out = {}
    for i in range(0, len(cases), 400):
        part = cases[i:i + 400]
        r = ctx.tlc("PackRun", CFG, files={"PackRun.tla": run_module(part)}, label="%s [%d..]" % (label, i), timeout=2400)
        for t in r["traces"]:
            out[key_of_trace(t["c"])] = t
    return out


def key_of_trace(c):
    return json.dumps([c["mode"], c["start"], list(c["idxs"]), c["pre"], c["post"], list(c["ids"])])


def key_of_case(c):
    s = lambda v: str(v)
    return json.dumps([c["mode"], s(c.get("start", 0)), [s(i) for i in c.get("idxs", [])], s(c["pre"]), s(c["post"]), [s(i) for i in c.get("ids", [])]])


def run(ctx):
    ctx.assumptions += [
        "Keccak.tla is the oracle for the hash (KAT-pinned; every spec hash is also cross-checked against x/crypto by the harness: disagreement = spec bug, exit 2)",
        "the on-chain verifier hashes abi.encodePacked(uint32.., uint256..) and reduces modulo r (transcribed in Packing.tla)",
    ]
    classes = [32, 31, 30, 16, 1, 0, "t1", "t2", "t31"]
    cases = []
    salt = 0
    # leg A: every (pre class, post class) pair per mode, commitments / indices through their classes, batch 0..3 and multi-block
    for mode in ("insertion", "deletion"):
        for cp in classes:
            for cq in classes:
                salt += 1
                if mode == "insertion":
                    b = salt % 4
                    cases.append(dict(mode=mode, start=[0, 1, 65536, 2 ** 32 - 1][salt % 4], pre=val(cp, salt), post=val(cq, salt + 7),
                                      ids=[val(classes[(salt + j) % len(classes)], salt + j) for j in range(b)]))
                else:
                    b = [0, 1, 2, 3, 18, 19][salt % 6] if not ctx.quick else salt % 4
                    cases.append(dict(mode=mode, idxs=[[0, 1, 65536, 2 ** 32 - 1][(salt + j) % 4] for j in range(b)], pre=val(cp, salt), post=val(cq, salt + 7)))
    if not ctx.quick:
        r_ = rng(ctx.seed, "c08")
        for _ in range(200):
            mode = r_.choice(["insertion", "deletion"])
            b = r_.randrange(0, 6)
            c = dict(mode=mode, pre=val(r_.choice(classes), r_.randrange(1000)), post=val(r_.choice(classes), r_.randrange(1000)))
            if mode == "insertion":
                c.update(start=r_.randrange(2 ** 32), ids=[val(r_.choice(classes), r_.randrange(1000)) for _ in range(b)])
            else:
                c.update(idxs=[r_.randrange(2 ** 32) for _ in range(b)])
            cases.append(c)
    hs = spec_hashes(ctx, cases, "PackingMC classes")
    if len(hs) != len(set(key_of_case(c) for c in cases)):
        raise Infra("PackingMC returned %d hashes for %d cases" % (len(hs), len(cases)))
    res = ctx.run_vh(["c08"], dict(cases=list(hs.values())))
    nA = 0
    for x in res:
        if x.get("kind") == "spec-vs-reference":
            raise Infra("spec hash differs from the reference packing+keccak (spec bug): %s" % json.dumps(x)[:400])
        nA += 1
        if not x["ok"]:
            ctx.violation("input-hash helper disagrees with Packing.tla: %s" % x.get("detail"), dict(kind="c08", cases=x.get("case")))
    ctx.samples += [dict(case=json.loads(k), hash=v["hash"]) for k, v in list(hs.items())[:2]]
    # leg B: documents produced by the code (gen-test-params recipe through the CLI, random valid batches incl. short roots)
    cli = ctx.build_cli()
    depths = [1, 2, 3, 5, 8] if ctx.quick else [1, 2, 3, 4, 5, 6, 7, 8, 16, 20, 31, 32]
    dims = []
    for d in depths:
        for b in ([1, 2, 3] if ctx.quick else [1, 2, 3, 4, 7]):
            if b <= 2 ** d:
                dims.append(["insertion", d, b])
            if 2 * b <= 2 ** d and d <= 31:
                dims.append(["deletion", d, b])
    docs = ctx.run_vh(["c08-gen"], dict(dims=dims, cli=cli, shortN=4 if ctx.quick else 40, randomN=6 if ctx.quick else 60), timeout=3000)
    gcases = [dict(mode=d["mode"], start=int(d["start"] or 0), idxs=[int(i) for i in d["idxs"] or []], pre=int(d["pre"]), post=int(d["post"]),
                   ids=[int(i) for i in d["ids"] or []]) for d in docs if not d.get("err") or d.get("pre")]
    gh = spec_hashes(ctx, gcases, "PackingMC code-produced documents")
    nB = 0
    short = 0
    for d in docs:
        nB += 1
        if not d.get("pre"):
            ctx.violation("%s: %s" % (d["id"], d.get("err")), dict(kind="c08-gen", doc=d))
            continue
        c = dict(mode=d["mode"], start=int(d["start"] or 0), idxs=[int(i) for i in d["idxs"] or []], pre=int(d["pre"]), post=int(d["post"]), ids=[int(i) for i in d["ids"] or []])
        t = gh.get(key_of_case(c))
        if t is None:
            raise Infra("no spec hash for document " + d["id"])
        if d["preBytes"] < 32 or d["postBytes"] < 32:
            short += 1
        if int(d["helper"]) % R != int(t["hash"]):
            ctx.violation("%s (%s depth %d batch %d, root byte lengths %d/%d): the document's inputHash %s is not the hash of its on-chain packing %s"
                          % (d["id"], d["mode"], d["depth"], d["batch"], d["preBytes"], d["postBytes"], hex(int(d["helper"])), hex(int(t["hash"]))),
                          dict(kind="c08-doc", doc=d, spec_hash=t["hash"]))
        elif not d["accepted"]:
            ctx.violation("%s: the real circuit rejects a generated document whose hash is right: %s" % (d["id"], d.get("err")), dict(kind="c08-doc", doc=d, spec_hash=t["hash"]))
    ctx.traces_validated = nA + nB
    ctx.evaluations = nA + nB
    ctx.cov["class_cases"] = nA
    ctx.cov["sessions"] = "every class case again twice in shuffled order in one process with out-of-range calls (negative, 2^256, 2^300) interleaved, and once from 8 goroutines concurrently"
    ctx.cov["code_documents"] = nB
    ctx.cov["code_documents_with_short_root"] = short
    ctx.cov["gen_test_params_dims"] = len(dims)
    ctx.cov["rule"] = ("leg A: TLC picks magnitude classes (byte lengths 32,31,30,16,1,0 and values ending in 1, 2, 31 zero bytes) for every root/commitment, index classes and batch sizes, computes the on-chain hash "
                       "(PackingAgrees/HashAgrees checked) and the Go helpers must return it; leg B: documents produced by the code (gen-test-params via the CLI for a "
                       "(mode, depth, batch) sweep, random valid batches incl. roots with leading zero bytes) are validated against Packing.tla and must be accepted by the real circuit")


def replay(ctx, path):
    case = json.load(open(path))
    if case["kind"] == "c08":
        res = ctx.run_vh(["c08"], case["cases"])
        bad = [x for x in res if not x["ok"]]
    else:
        d = case["doc"]
        print("document:", json.dumps(d)[:600], "spec hash:", case.get("spec_hash"))
        bad = [d]
    for x in bad:
        print("REPRODUCED:", json.dumps(x)[:600])
    return 1 if bad else 0
