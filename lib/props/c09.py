"""C09 — /prove answers every request with the documented status, code and a valid proof (DESIGN.md §5 C09)."""
import json
from concurrent.futures import ThreadPoolExecutor
from vlib import Infra, rng
import srvlib

LEVEL = "model_checking"
FIELDS = ["hash", "pre", "post", "id0", "idlast", "proof00", "prooflast"]
BAD_LITS = ["", "0x", "zz", " 0x1", "0x1 ", "1.0", "0x1g", "-", "0x_", "1e3", "_1"]
FMT_REPR = {"decimal": "12345", "HEXUPPER": "0xABCDEF", "0Xprefix": "0XFF", "hex-leading-zeros": "0x000000ff", "octal": "0o17", "binary": "0b101", "underscore": "0x1_0", "plus": "+0x1f"}
ALPHA = ["0", "1", "2", "3", "4", "5", "7", "9", "a", "f", "g", "x", "X", "b", "o", "_", "-", "+", ".", " ", "e", "z", "A", "B", "C", "D", "E", "F"]


def numeral_verdicts(ctx):
    lits = sorted(set(BAD_LITS + list(FMT_REPR.values())) - {""})
    tl = ", ".join("<<" + ", ".join('"%s"' % ch for ch in lit) + ">>" for lit in lits) + ", <<>>"
    cfg = ("SPECIFICATION Spec\nCONSTANTS Alphabet = {%s}\nMaxLen = 12\nLiterals <- LITS\nINVARIANTS EncoderNotation Export\nCHECK_DEADLOCK FALSE\n"
           % ", ".join('"%s"' % a for a in ALPHA))
    r = ctx.tlc("NumLits", cfg, files={"NumLits.tla": "---- MODULE NumLits ----\nEXTENDS NumGrammar\nLITS == {%s}\n====\n" % tl}, label="NumGrammar literals for the request classes")
    return {t["s"]: t["kind"] for t in r["traces"]}


def class_table(mode, verdicts):
    exp_of = {"must-reject": "mb", "must-accept": "ok", "either": "eany"}
    t = []
    add = lambda cid, expect, method="POST": t.append(dict(id=cid, method=method, expect=expect))
    for m in ("GET", "PUT", "DELETE", "FOO", "HEAD"):
        add("method:" + m, "405", m)
    add("method:PUT:valid", "405", "PUT")
    add("valid", "ok")
    add("extra-field", "ok")
    add("bytes:whitespace-padded", "ok")
    for k in ("garbage", "empty", "truncated:1", "truncated:half", "truncated:last", "trailing", "huge"):
        add("bytes:" + k, "mb")
    for k in ("null", "array", "number", "string", "true", "emptyobj", "nested"):
        add("json:" + k, "mb")
    for f in FIELDS:
        for lit in BAD_LITS:
            if verdicts[lit] != "must-reject":
                raise Infra("literal %r is expected to be must-reject, NumGrammar says %s" % (lit, verdicts[lit]))
            add("numbad:%s:%s" % (f, lit), "mb")
        for fmt, rep in FMT_REPR.items():
            add("numfmt:%s:%s" % (f, fmt), exp_of[verdicts[rep]])
        for ty in ("number", "array", "object", "bool"):
            add("type:%s:%s" % (f, ty), "mb")
        add("type:%s:null" % f, "e400")
        add("val:%s:plus1" % f, "pe")
        add("val:%s:plusr" % f, "eany")
        add("val:%s:huge" % f, "eany")
        add("val:%s:negative" % f, "eany")
    for k in ("string", "negative", "2p32", "float", "exp"):
        add("idx:" + k, "mb")
    add("idx:null", "eany")
    add("idx:wrong", "pe")
    arrays = ["ids", "proofs", "row0", "rowlast"] + (["idxs"] if mode == "deletion" else [])
    for a in arrays:
        for dlt in ("+1", "-1", "empty"):
            add("shape:%s:%s" % (a, dlt), "pe")
    add("shape:long", "pe")
    for f in ("hash", "pre", "post"):
        add("missing:" + f, "mb")
    for a in ["ids", "proofs"] + (["idxs"] if mode == "deletion" else []):
        add("missing:" + a, "e400")
        add("nullarr:" + a, "e400")
    if mode == "insertion":
        add("missing:start", "eany")
    add("othermode", "e400")
    # HTTP framing: the same classes sent with Transfer-Encoding: chunked (no Content-Length)
    for c in [c for c in t if c["id"] in ("valid", "extra-field", "bytes:garbage", "bytes:empty", "bytes:trailing", "json:null", "val:hash:plus1", "val:pre:plus1",
                                          "shape:ids:+1", "missing:hash", "numbad:pre:zz", "method:PUT:valid")]:
        t.append(dict(id="chunked:" + c["id"], method=c["method"], expect=c["expect"]))
    return t


def run(ctx):
    ctx.assumptions += [
        "request classes the statement leaves open (numerals outside 0x-hex, representatives >= r, missing/null arrays, the other mode's document) are only required to yield a documented answer and no crash; a 200 must always carry a proof verifying for the request's input hash",
        "a 405 has an empty body; error bodies are JSON objects {code, message}",
    ]
    verdicts = numeral_verdicts(ctx)
    verdicts[""] = verdicts.get("", "must-reject")
    total = 0
    modes = ["deletion", "insertion"]
    jobs = []
    for mode in modes:
        table = class_table(mode, verdicts)
        cls = ", ".join('[id |-> "%s", method |-> "%s", expect |-> "%s"]' % (c["id"].replace("\\", "\\\\"), c["method"], c["expect"]) for c in table)
        files = {"ProveApiRun.tla": "---- MODULE ProveApiRun ----\nEXTENDS ProveApi\nCLS == {%s}\n====\n" % cls}
        cfgt = "SPECIFICATION Spec\nCONSTANTS Classes <- CLS\nMaxSeq = %d\nCanaryId = \"valid\"\nINVARIANTS StaysInService WellFormedTable%s\nCHECK_DEADLOCK FALSE\n"
        # model level: all sequences of length <= 2 over the class alphabet (the table is checked for well-formedness)
        ctx.tlc("ProveApiRun", cfgt % (2, ""), files=files, label="ProveApi mc %s (all sequences <= 2 over %d classes)" % (mode, len(table)), timeout=900)
        nseq = 40 if ctx.quick else 400
        r = ctx.tlc("ProveApiRun", cfgt % (3, " Export"), files=files, simulate="num=%d" % (nseq // 4), depth=4, workers=4, label="ProveApi sequences %s" % mode)
        seqs = [[dict(**{"class": s["class"], "method": s["method"], "expect": s["expect"]}) for s in t] for t in r["traces"]]
        seen = set(s["class"] for q in seqs for s in q)
        rest = [c for c in table if c["id"] not in seen]
        rr = rng(ctx.seed, "c09/" + mode)
        rr.shuffle(rest)
        for i in range(0, len(rest), 3):
            seqs.append([{"class": c["id"], "method": c["method"], "expect": c["expect"]} for c in rest[i:i + 3]])
        ctx.cov.setdefault("classes", {})[mode] = len(table)
        nparts = 6
        for k in range(nparts):
            part = seqs[k::nparts]
            if part:
                jobs.append(dict(mode=mode, depth=2, batch=2, sequences=part, canary="valid"))
    # one (2,2) setup per mode is shared by the jobs through the check's scratch cache: build it first
    for mode in modes:
        ctx.run_vh(["c09"], dict(mode=mode, depth=2, batch=2, sequences=[], canary="valid"), timeout=1200)
    with ThreadPoolExecutor(6) as ex:
        results = list(ex.map(lambda j: ctx.run_vh(["c09"], j, timeout=3000, allow_crash=True), jobs))
    for j, st in zip(jobs, results):
        if st["rc"] != 0:
            # the server runs in the harness process: a crash of the handler takes it down
            done = len(st["results"])
            culprit = j["sequences"][done] if done < len(j["sequences"]) else None
            ctx.violation("the process serving /prove died while answering sequence %s: %s" % (json.dumps(culprit)[:300], st["tail"][-400:]),
                          dict(kind="c09", cases=dict(mode=j["mode"], depth=2, batch=2, sequences=[culprit] if culprit else [], canary="valid")))
        for x in st["results"]:
            total += 1
            if not x["ok"]:
                ctx.violation("/prove (%s): %s" % (j["mode"], x.get("detail")), dict(kind="c09", cases=x.get("case")))
            elif len(ctx.samples) < 3:
                ctx.samples.append(dict(mode=j["mode"], sequence=x.get("observed")))
    ctx.traces_validated = total
    ctx.evaluations = total
    ctx.cov["rule"] = ("every request class of the ProveApi.tla table (methods; byte-level, JSON-level, per-field numeral / type / value classes with the numeral verdicts taken from "
                       "NumGrammar.tla; index, shape, missing-field classes; valid documents) is sent at least once, in TLC-simulated sequences of 3 on one live server per mode, "
                       "followed by a canary valid request; status, code and proof validity must lie in the class's allowed set")


def replay(ctx, path):
    case = json.load(open(path))
    st = ctx.run_vh(["c09"], case["cases"], timeout=3000, allow_crash=True)
    bad = [x for x in st["results"] if not x["ok"]]
    if st["rc"] != 0:
        bad.append(dict(crash=st["tail"][-500:]))
    for x in bad:
        print("REPRODUCED:", json.dumps(x)[:900])
    return 1 if bad else 0
