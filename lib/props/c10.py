"""C10 — proof JSON: eight EVM-order coordinates, lossless round trip (DESIGN.md §5 C10)."""
import json
from vlib import Infra

LEVEL = "model_checking"


def cfg(lens, align="right", export=False, tzs=(0,), trim="leading"):
    return ("SPECIFICATION Spec\nCONSTANTS Slot = 32\nLens = {%s}\nTZs = {%s}\nAlign = \"%s\"\nTrim = \"%s\"\nINVARIANTS RoundTrip EVMOrder%s\nCHECK_DEADLOCK FALSE\n"
            % (", ".join(map(str, lens)), ", ".join(map(str, tzs)), align, trim, " Export" if export else ""))


def run(ctx):
    ctx.assumptions += [
        "gnark's raw proof serialisation is Ar | Bs | Krs with G2 coordinates ordered X.A1 X.A0 Y.A1 Y.A0 (read back from the struct by reflection)",
        "Groth16 verification is used as an oracle for 'still accepted' on real proofs",
    ]
    # design level: every byte-length vector over the classes, both phases; left-alignment mutant must be refuted
    ctx.tlc("ProofCodec", cfg([32, 31, 1, 33] if ctx.quick else [32, 31, 30, 1, 0, 33]), label="ProofCodec mc", timeout=900)
    ctx.expect_mutant_violates("ProofCodec", cfg([32, 31], align="left"), "ProofCodec mutant Align=left")
    # trailing zero bytes (values divisible by 256^t), at most one such coordinate per proof; trimming on both sides must be refuted
    ctx.tlc("ProofCodec", cfg([32, 31] if ctx.quick else [32, 31, 33], tzs=(0, 1, 2) if ctx.quick else (0, 1, 2, 3)), label="ProofCodec mc with trailing-zero classes", timeout=1800)
    ctx.expect_mutant_violates("ProofCodec", cfg([32, 31], tzs=(0, 1), trim="both"), "ProofCodec mutant Trim=both")
    # behaviours for replay: all short/full vectors
    r = ctx.tlc("ProofCodec", cfg([32, 31, 33], export=True), label="ProofCodec gen (short / full / top-of-field classes)", timeout=900)
    vectors = r["traces"]
    if len(vectors) != 6561:
        raise Infra("expected 6561 vectors, got %d" % len(vectors))
    rz = ctx.tlc("ProofCodec", cfg([32], export=True, tzs=(0, 1, 2, 3)), label="ProofCodec gen (trailing-zero classes)", timeout=900)
    if len(rz["traces"]) != 25:
        raise Infra("expected 25 trailing-zero vectors, got %d" % len(rz["traces"]))
    vectors = vectors + [v for v in rz["traces"] if any(v["tz"])]
    nreal = 16 if ctx.quick else 300
    res = ctx.run_vh(["c10"], dict(vectors=vectors, real=nreal, mode="deletion", depth=1, batch=1), timeout=3000)
    realized = 0
    short_real = 0
    for x in res:
        if x.get("trivial"):
            continue
        realized += 1
        if x["kind"] == "real-proof-roundtrip" and "lens=" in (x.get("detail") or "") and any(l < 32 for l in json.loads(x["detail"][5:])):
            short_real += 1
        if not x["ok"]:
            ctx.violation("proof JSON codec disagrees with ProofCodec.tla: %s: %s" % (x["id"], x.get("detail")),
                          dict(kind="c10", cases=x.get("case"), expected=x.get("expected"), observed=x.get("observed")))
        elif len(ctx.samples) < 5:
            ctx.samples.append(dict(id=x["id"], coords=x.get("expected"), detail=x.get("detail")))
    # sessions: decoded proofs are values (ProofSession.tla): destinations reused, results kept by value, checked after later decodes
    scfg = 'SPECIFICATION Spec\nCONSTANTS Dests = {"x", "y"}\nDocs = {"p", "q", "r"}\nMaxOps = %d\nReuse = %s\nINVARIANTS ValueSemantics%s\nCHECK_DEADLOCK FALSE\n'
    ctx.tlc("ProofSession", scfg % (5 if ctx.quick else 6, "FALSE", "") + "VIEW NoHistView\n", label="ProofSession mc", timeout=900)
    ctx.expect_mutant_violates("ProofSession", scfg % (5, "TRUE", "") + "VIEW NoHistView\n", "ProofSession mutant Reuse (decode into the object the destination already holds)")
    rs = ctx.tlc("ProofSession", scfg % (7, "FALSE", " Export"), simulate="num=%d" % (300 if ctx.quick else 3000), depth=8, workers=4, label="ProofSession behaviours", timeout=900)
    sess, seen = [], set()
    for t in rs["traces"]:
        k = json.dumps(t, sort_keys=True)
        ops = [o["op"] for o in t]
        # worth replaying: something kept, a later decode, then a check
        if k in seen or "keep" not in ops or "check" not in ops[ops.index("keep"):] or "decode" not in ops[ops.index("keep"):]:
            continue
        seen.add(k)
        sess.append(t)
    must = [[dict(op="decode", dest="x", doc="p"), dict(op="keep", dest="x"), dict(op="decode", dest="x", doc="q"), dict(op="check", kept=1, doc="p")],
            [dict(op="decode", dest="x", doc="p"), dict(op="assign", dest="x", to="y"), dict(op="decode", dest="x", doc="q"), dict(op="keep", dest="y"), dict(op="decode", dest="y", doc="r"), dict(op="check", kept=1, doc="p")]]
    sess = must + sess[:40 if ctx.quick else 400]
    sres = ctx.run_vh(["c10-session"], dict(behaviours=sess, docs=["p", "q", "r"]), timeout=1800)
    if len(sres) != len(sess):
        raise Infra("c10-session returned %d results for %d behaviours" % (len(sres), len(sess)))
    for x in sres:
        if not x["ok"]:
            ctx.violation("proof JSON codec disagrees with ProofSession.tla: %s: %s" % (x["id"], x.get("detail")), dict(kind="c10-session", cases=x.get("case")))
    realized += len(sess)
    ctx.cov["sessions"] = len(sess)
    ctx.traces_validated = realized
    ctx.evaluations = len(res)
    ctx.cov["real_proofs"] = nreal
    ctx.cov["real_proofs_with_short_coordinate"] = short_real
    ctx.cov["rule"] = ("every short/full byte-length vector of ProofCodec.tla that is realizable by curve points (one short coordinate per point, "
                       "or the G1 generator) is built as a synthetic gnark proof and round-tripped through the real codec; plus seeded real proofs")


def replay(ctx, path):
    case = json.load(open(path))
    c = case["cases"]
    if case.get("kind") == "c10-session":
        bad = [x for x in ctx.run_vh(["c10-session"], c, timeout=1800) if not x["ok"]]
        for x in bad:
            print("REPRODUCED:", json.dumps(x)[:600])
        return 1 if bad else 0
    c.setdefault("vectors", [])
    c.setdefault("real", 0)
    res = ctx.run_vh(["c10"], c, timeout=3000)
    bad = [x for x in res if not x["ok"]]
    for x in bad:
        print("REPRODUCED:", json.dumps(x)[:600])
    return 1 if bad else 0
