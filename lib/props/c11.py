"""C11 — a proving-system file reloads to an interchangeable system in either format (DESIGN.md §5 C11)."""
import json
import keyslib
from vlib import Infra

LEVEL = "model_checking"


def run(ctx):
    ctx.assumptions += [
        "two systems are the same iff depth, batch size and the byte-exact re-serialisation of proving key, verifying key and constraint system agree; interchangeability is additionally exercised by cross prove/verify",
        "all file operations of a behaviour run in ONE process (as `setup` / `convert-to-raw` / a long-lived service would), several systems alive at once",
    ]
    systems = [dict(id="insA", kind="real", mode="insertion", depth=2, batch=1), dict(id="delB", kind="real", mode="deletion", depth=1, batch=3)]      # more slots than leaves: legal for deletion (padding)
    if not ctx.quick:
        systems += [dict(id="insA2", kind="real", mode="insertion", depth=2, batch=1), dict(id="delC", kind="real", mode="deletion", depth=3, batch=2)]
    # section lengths only matter for the crash actions; use the synthetic layout's shape for the model
    fake = {s["id"]: dict(c=[8, 100 + 10 * i, 20, 50 + i], r=[8, 200 + 10 * i, 40, 50 + i]) for i, s in enumerate(systems)}
    mod = {"KeysRun.tla": keyslib.module(systems, fake, ["f", "g"])}
    # design level: every sequence of <= 4 write/read/convert (+ crash at any offset of these small lengths) over 2 files
    ctx.tlc("KeysRun", keyslib.cfg(4 if ctx.quick else 5, "none", view=True), files=mod, label="KeysFile mc (write/read/convert, %d systems, 2 files)" % len(systems), timeout=2400, heap="16g")
    small = {"KeysRun.tla": keyslib.module(systems[:1], {systems[0]["id"]: dict(c=[8, 5, 3, 4], r=[8, 9, 5, 4])}, ["f", "g"])}
    ctx.tlc("KeysRun", keyslib.cfg(4, "all", view=True), files=small, label="KeysFile mc with crashes at every offset (tiny lengths)", timeout=1200)
    ctx.expect_mutant_violates("KeysRun", keyslib.cfg(3, "all", variant="stop-after-vk", view=True), "KeysFile reader mutant stop-after-vk", files=small)
    # names that are hard links / symbolic links to another name's file: conversion between two NAMES of one file is an in-place conversion
    inv = ("NeverHalfLoaded", "RoundTrip", "LastReadFaithful", "ConvertKeeps")
    three = {"KeysRun.tla": keyslib.module(systems[:2], fake, ["f", "g", "h"])}
    ctx.tlc("KeysRun", keyslib.cfg(4 if ctx.quick else 5, "none", view=True, links=True, invariants=inv), files=three, label="KeysFile mc with links (3 names)", timeout=2400, heap="16g")
    ctx.expect_mutant_violates("KeysRun", keyslib.cfg(4, "none", view=True, links=True, convert="create-first", invariants=inv),
                               "KeysFile convert mutant create-first (output created before the source is read unless the names are equal)", files=three)
    # behaviours for replay
    n = 16 if ctx.quick else 160
    r = ctx.tlc("KeysRun", keyslib.cfg(4 if ctx.quick else 6, "none", export=True), files=mod, simulate="num=%d" % (n * 3), depth=8, workers=4, label="KeysFile behaviours")
    beh, seen = [], set()
    for t in r["traces"]:
        k = json.dumps(t, sort_keys=True)
        writes = [o for o in t if o["op"] == "write"]
        reads = [o for o in t if o["op"] in ("read", "convert") and o.get("ok")]
        if k in seen or not reads or len(set(o["sys"] for o in writes)) < 1:
            continue
        seen.add(k)
        beh.append(t)
    # make sure the shapes that matter are present: two different systems written before a read; every format; conversion of a compressed file
    a, b = systems[0]["id"], systems[1]["id"]
    must = [
        [dict(op="write", sys=a, fmt="c", file="f"), dict(op="write", sys=b, fmt="c", file="g"), dict(op="read", file="g", ok=True, sys=b), dict(op="read", file="f", ok=True, sys=a)],
        [dict(op="write", sys=b, fmt="r", file="f"), dict(op="write", sys=a, fmt="r", file="g"), dict(op="read", file="g", ok=True, sys=a), dict(op="convert", file="f", to="g", ok=True, sys=b)],
        [dict(op="write", sys=a, fmt="c", file="f"), dict(op="convert", file="f", to="g", ok=True, sys=a), dict(op="read", file="g", ok=True, sys=a), dict(op="read", file="f", ok=True, sys=a)],
        [dict(op="read", file="f", ok=False, sys="none"), dict(op="write", sys=b, fmt="c", file="f"), dict(op="convert", file="f", to="f2", ok=True, sys=b)][:2] + [dict(op="read", file="f", ok=True, sys=b)],
        # in-place conversion, of a compressed and of an already raw file
        [dict(op="write", sys=a, fmt="c", file="f"), dict(op="convert", file="f", to="f", ok=True, sys=a), dict(op="read", file="f", ok=True, sys=a)],
        [dict(op="write", sys=b, fmt="r", file="g"), dict(op="convert", file="g", to="g", ok=True, sys=b), dict(op="convert", file="g", to="f", ok=True, sys=b), dict(op="read", file="g", ok=True, sys=b)],
        # conversion between two names of one file (hard link, symbolic link), in both directions, then the file is still the system
        [dict(op="write", sys=a, fmt="c", file="f"), dict(op="link", file="f", to="g", kind="hard"), dict(op="convert", file="f", to="g", ok=True, sys=a), dict(op="read", file="f", ok=True, sys=a)],
        [dict(op="write", sys=b, fmt="c", file="f"), dict(op="link", file="f", to="g", kind="sym"), dict(op="convert", file="g", to="f", ok=True, sys=b), dict(op="read", file="g", ok=True, sys=b)],
        [dict(op="write", sys=a, fmt="r", file="f"), dict(op="link", file="f", to="g", kind="sym"), dict(op="convert", file="f", to="g", ok=True, sys=a), dict(op="write", sys=b, fmt="c", file="g"), dict(op="read", file="f", ok=True, sys=b)],
    ]
    rl = ctx.tlc("KeysRun", keyslib.cfg(4 if ctx.quick else 6, "none", export=True, links=True), files={"KeysRun.tla": keyslib.module(systems[:2], fake, ["f", "g", "h"])},
                 simulate="num=%d" % (n * 6), depth=8, workers=4, label="KeysFile behaviours with links")
    nl = 0
    for t in rl["traces"]:
        k = json.dumps(t, sort_keys=True)
        li = [i for i, o in enumerate(t) if o["op"] == "link"]
        if k in seen or not li or not any(o["op"] in ("read", "convert") and o.get("ok") for o in t[li[0]:]):
            continue
        seen.add(k)
        must.append(t)
        nl += 1
        if nl >= (6 if ctx.quick else 60):
            break
    ctx.cov["behaviours_with_links"] = nl + 3
    beh = must + beh[:max(0, n - len(must))]
    res = ctx.run_vh(["c11"], dict(systems=systems, behaviours=beh, dir=ctx.scratch, cli=ctx.build_cli()), timeout=3400)
    if len(res) != len(beh):
        raise Infra("c11 harness returned %d results for %d behaviours" % (len(res), len(beh)))
    for x in res:
        if not x["ok"]:
            ctx.violation("proving-system file: %s: %s" % (x["id"], x.get("detail")), dict(kind="c11", cases=x.get("case")))
    ctx.samples += beh[:2]
    ctx.traces_validated = len(beh)
    ctx.evaluations = len(beh)
    ctx.cov["systems"] = systems
    ctx.cov["rule"] = ("KeysFile.tla behaviours (sequences of write(system, format, file) / read / convert-to-raw over two files and several real Groth16 systems of both modes with "
                       "depth != batch) executed in one process; after every read/convert the spec says which system must have been loaded: depth, batch and byte-exact pk/vk/cs are "
                       "compared with the original and the pair is cross-checked by prove/verify in both directions")


def replay(ctx, path):
    case = json.load(open(path))
    c = case["cases"]
    c["dir"] = ctx.scratch
    res = ctx.run_vh(["c11"], c, timeout=3400)
    bad = [x for x in res if not x["ok"]]
    for x in bad:
        print("REPRODUCED:", json.dumps(x)[:600])
    return 1 if bad else 0
