"""C12 — circuit compilation is deterministic, path-independent, with one public input (DESIGN.md §5 C12)."""
import json
import artlib
from vlib import Infra

LEVEL = "other"
EXPLANATION = ("Trace validation against a monitor specification (Artifacts.tla). The run plan (which (mode, depth, batch) x construction path x GOMAXPROCS x repetition to execute) is "
               "derived from the spec by TLC; every build runs in a fresh process and records the SHA-256 of ConstraintSystem.WriteTo, the number of public inputs and the error; TLC "
               "then accepts the recorded history only if every event keeps the digest registry functional (same dimensions => same bytes on every path / process / scheduling), shows "
               "exactly one public input, and fails exactly for deletion depth > 31. The interleavings that matter live inside the Go runtime and gnark's compiler, not in the spec, "
               "so the TLA+ content is a monitor, not an exploration — hence level 'other'.")


def run(ctx):
    ctx.assumptions += ["SHA-256 collision-freeness; `procs` = GOMAXPROCS of a fresh process is the scheduling knob available from outside",
                        "the import path is exercised with well-formed key files of other dimensions where no matching setup was exported (it only has to compile the same circuit)"]
    cli = ctx.build_cli()
    if ctx.quick:
        # incl. dimensions whose hash input spans two Keccak blocks with variables in the second (insertion batch >= 3, deletion batch >= 18)
        dims = [["insertion", 1, 1], ["deletion", 2, 1], ["insertion", 3, 2], ["insertion", 2, 3], ["deletion", 1, 18]]
        paths, procs, reps = ["r1cs", "cli", "import"], [1, 16], 1
        setup_dims = [["deletion", 2, 1], ["insertion", 1, 1]]
    else:
        dims = [["insertion", 1, 1], ["insertion", 2, 2], ["insertion", 3, 2], ["insertion", 8, 3], ["insertion", 32, 1], ["deletion", 1, 1], ["deletion", 2, 1], ["deletion", 3, 2],
                ["deletion", 8, 3], ["deletion", 31, 1], ["insertion", 2, 3], ["insertion", 3, 7], ["deletion", 1, 18], ["deletion", 2, 19], ["deletion", 2, 53]]
        paths, procs, reps = ["r1cs", "cli", "import"], [1, 2, 16], 2
        setup_dims = [["insertion", 2, 2], ["deletion", 2, 1], ["deletion", 3, 2]]
    guard = [["deletion", 32, 1], ["deletion", 33, 2], ["deletion", 63, 1], ["deletion", 64, 1], ["deletion", 100, 1]]
    pl, mod, reps = artlib.plan(ctx, dims + guard, paths, procs, reps, [])
    builds = pl["builds"]
    # setups first (they also export pk/vk for the import path), then everything else
    items = [("art-build", dict(mode=m, depth=d, batch=b, path="setup", cli=cli, dir=ctx.scratch), 16) for m, d, b in setup_dims]
    first = artlib.execute(ctx, items, nproc=3)
    items2 = []
    for b in builds:
        refused = b["mode"] == "deletion" and b["depth"] > 31
        if refused and (b["procs"] != procs[0] or b["rep"] != 1):
            continue        # the refusal is deterministic; one run per path
        items2.append(("art-build", dict(mode=b["mode"], depth=b["depth"], batch=b["batch"], path=b["path"], cli=cli, dir=ctx.scratch), b["procs"]))
    recs = first + artlib.execute(ctx, items2, nproc=8)
    # repeated compilations inside ONE process, several dimensions in sequence (incl. dimensions whose decimal digits concatenate
    # alike, and a refused one in the middle), each compared with a fresh-process build of the same dimensions
    seqs = [[["deletion", 1, 11], ["deletion", 11, 1], ["deletion", 2, 1], ["deletion", 32, 1], ["deletion", 1, 1], ["deletion", 1, 11]]]
    if not ctx.quick:
        seqs += [[["insertion", 1, 11], ["insertion", 11, 1], ["insertion", 1, 12], ["insertion", 11, 2], ["insertion", 2, 2]],
                 [["deletion", 2, 13], ["deletion", 21, 3], ["deletion", 3, 2], ["insertion", 3, 2], ["deletion", 3, 2], ["deletion", 12, 1], ["deletion", 1, 21]]]
    fresh = sorted(set(tuple(d) for sq in seqs for d in sq) - set(tuple(d) for d in dims + guard))
    recs += artlib.execute(ctx, [("art-build", dict(mode=m, depth=d, batch=b, path="r1cs", cli=cli, dir=ctx.scratch), 16) for m, d, b in fresh], nproc=8)
    for sq in seqs:
        recs += ctx.run_vh(["art-build-seq"], dict(dims=sq), timeout=3000)
    # the exported Solidity verifier of each set-up system expects exactly one public input
    import os
    sol = [("art-solidity", dict(cli=cli, keys=os.path.join(ctx.scratch, "ps-%s-%d-%d.ps" % (m, d, b)), mode=m), 0) for m, d, b in setup_dims]
    recs += artlib.execute(ctx, sol, nproc=3)
    bad = artlib.validate(ctx, recs, mod, reps, "Artifacts trace (%d builds)" % len(recs))
    if bad is not None:
        r = recs[bad - 1]
        if r["event"] == "solidity":
            ctx.violation("exported Solidity verifier (%s): %s" % (r["keys"], r["err"] or "%d public inputs, the circuit must have exactly one" % r["inputs"]), dict(kind="c12-solidity", rejected=r))
            r = None
        same = [x for x in recs[:bad - 1] if r and x["event"] == "build" and (x["mode"], x["depth"], x["batch"]) == (r["mode"], r["depth"], r["batch"]) and not x["err"]]
        why = None if r is None else ("build fails: " + r["err"]) if r["err"] and not (r["mode"] == "deletion" and r["depth"] > 31) else \
              ("a deletion circuit of depth %d was built although depths > 31 must be refused" % r["depth"]) if (r["mode"] == "deletion" and r["depth"] > 31 and not r["err"]) else \
              ("%d public inputs" % r["nbPublic"]) if r["nbPublic"] != 1 else \
              ("constraint system differs from an earlier build of the same dimensions (%s via %s/procs=%s)" % (same[0]["digest"][:16], same[0]["path"], same[0]["procs"]) if same else "?")
        if r is not None:
          ctx.violation("build event %d rejected by Artifacts.tla: %s %d/%d via %s procs=%s: %s" % (bad, r["mode"], r["depth"], r["batch"], r["path"], r["procs"], why),
                      dict(kind="c12", rejected=r, earlier=same[:2]))
    ctx.samples += recs[:3]
    ctx.evaluations = len(recs)
    ctx.traces_validated = len(recs)
    ctx.cov["distinct_nontrivial"] = len(set((r["mode"], r["depth"], r["batch"], r["path"], r["procs"]) for r in recs if r["event"] == "build"))
    ctx.cov["builds"] = len(recs)
    ctx.cov["dims"] = dims + guard


def replay(ctx, path):
    case = json.load(open(path))
    r = case["rejected"]
    res = ctx.run_vh(["art-build"], dict(mode=r["mode"], depth=r["depth"], batch=r["batch"], path=r["path"], cli=ctx.build_cli(), dir=ctx.scratch), env_extra={"GOMAXPROCS": str(r["procs"])})
    print("rejected record:", json.dumps(r)[:500])
    print("re-run         :", json.dumps(res[0])[:500])
    for e in case.get("earlier", []):
        print("earlier build  :", json.dumps(e)[:300])
    return 1
