"""C13 — concurrent prove requests are isolated (DESIGN.md §5 C13)."""
import json
import srvlib
from vlib import Infra

LEVEL = "model_checking"
RESP_KINDS = ("response", "await")


def case_of(b, beh, half):
    ins = beh.index(b) >= half
    return dict(mode="insertion" if ins else "deletion", depth=2, batch=2 if ins else 1, hookKeys=srvlib.hook_keys(), behaviours=[b])


def run(ctx):
    ctx.assumptions += [
        "valid requests carry distinct random batches, so a proof that verifies for a request's own input hash cannot have been computed from another request's parameters (Groth16 soundness)",
        "gated replay orders the handler hooks (enter, read, decoded, proved, respond) of concurrent requests in every TLC-chosen interleaving; races below hook granularity are covered by un-gated load (+ the Go race detector in the thorough tier)",
    ]
    kinds = ["valid", "unsat", "malformed"]
    mod = {"ServerRun.tla": srvlib.mc_module(kinds)}
    nc = 2 if ctx.quick else 3
    ctx.tlc("ServerRun", srvlib.cfg(nc, allow_stop=False, invariants=["TypeOK", "Isolation", "GaugeExact", "Monotone", "Lag", "Conservation"]), files=mod,
            label="Server mc (C13, %d clients, all interleavings)" % nc, timeout=2400, heap="24g")
    ctx.expect_mutant_violates("ServerRun", srvlib.cfg(2, allow_stop=False, shared=True, invariants=["Isolation"]), "mutant SharedParams=TRUE", files=mod)
    # spec -> code: interleavings of 2..3 requests forced on the real handler
    n = 36 if ctx.quick else 400
    beh = srvlib.generate(ctx, kinds, 2, n * 2 // 3, False, "ServerGen C13 2 clients") + srvlib.generate(ctx, kinds, 3, n // 3, False, "ServerGen C13 3 clients")
    # half of the interleavings on a deletion server, half on an insertion server where the requests of a behaviour may share
    # the tree state (same pre-root and start index, different commitments)
    half = len(beh) // 2
    res = srvlib.replay(ctx, beh[:half]) + srvlib.replay(ctx, beh[half:], mode="insertion", depth=2, batch=2)
    diverged = 0
    for b, mm, case in res:
        bad = [m for m in mm if m["kind"] in RESP_KINDS]
        if bad:
            ctx.violation("interleaving %s: %s" % (srvlib.sched_of(b), bad[0]["detail"]),
                          dict(kind="srv-replay", cases=case_of(b, beh, half), mismatches=mm))
        elif [m for m in mm if m["kind"] in ("waiting", "listener")]:
            diverged += 1
    ctx.samples.append(dict(schedule=srvlib.sched_of(beh[0]), reqs=beh[0]["reqs"]))
    # code -> spec: un-gated load, N = 2..16 clients with random offsets; trace validated by TLC
    summ, rej, nev = srvlib.load_and_validate(ctx, kinds, 7 if ctx.quick else 30, 6 if ctx.quick else 16)
    summ2, rej2, nev2 = srvlib.load_and_validate(ctx, kinds, 7 if ctx.quick else 30, 6 if ctx.quick else 16, mode="insertion", depth=2, batch=2)
    summ, rej, nev = summ + summ2, rej or rej2, nev + nev2
    for s in summ:
        for b in s.get("bad_responses") or []:
            ctx.violation("concurrent load round %d (%d clients): %s" % (s["round"], s["clients"], b), dict(kind="srv-load", summary=s))
    # a rejection is a verdict on C13 when a property-level observation fails: a client's received response is not the one the spec derives
    # from that client's own request (recv line), or TraceIsolation is violated; a hook line that no action explains means the handler's
    # internal structure has changed — lost conformance (exit 2), not a violation
    if rej and not ctx.violations and not (rej["invariant"] or (rej["event"] or {}).get("event") in ("recv", "send", "reset")):
        raise Infra("TraceServer.tla no longer explains the handler's hook sequence (line %d: %s) although every response matched its own request's oracle: "
                    "Server.tla needs updating" % (rej["line"], json.dumps(rej["event"])[:300]))
    if rej and not ctx.violations:
        ctx.violation("recorded load trace rejected by TraceServer.tla at line %d (%s): %s" % (rej["line"], rej["invariant"] or "no action explains the event", json.dumps(rej["event"])[:300]),
                      dict(kind="srv-trace", rejection=rej))
    if not ctx.quick:
        # the same load under the Go race detector (auxiliary signal: a report inside worldcoin/gnark-mbu packages)
        st = ctx.run_vh(["srv-load"], dict(mode="deletion", depth=2, batch=1, rounds=8, maxClients=8, kinds=[srvlib.KIND_JSON[k] for k in kinds],
                                           traceFile="race-load.ndjson", scrapesPerRound=2), timeout=3000, race=True, allow_crash=True,
                        env_extra={"GORACE": "halt_on_error=0 exitcode=0"})
        if "WARNING: DATA RACE" in st["tail"] and "worldcoin/gnark-mbu" in st["tail"]:
            ctx.violation("Go race detector report on the server path under concurrent load", dict(kind="srv-race", report=st["tail"][-3000:]))
        ctx.cov["race_detector_run"] = True
    if beh and diverged * 2 > len(beh) and not ctx.violations:
        raise Infra("%d of %d schedules are infeasible on the real code: binding broken" % (diverged, len(beh)))
    ctx.traces_validated = len(beh) + len(summ)
    ctx.evaluations = len(beh) + len(summ)
    ctx.cov["load_trace_events"] = nev
    ctx.cov["schedules_diverged"] = diverged
    ctx.cov["rule"] = ("all interleavings of the handler steps of 2..3 concurrent requests (valid with distinct hashes, unsatisfiable, malformed) are model-checked for "
                       "Isolation; simulated interleavings are forced on the real handler through gates and each response is checked against its own request's oracle "
                       "(status, code, proof verifies for its own hash); un-gated load traces are validated by TraceServer.tla")


def replay(ctx, path):
    case = json.load(open(path))
    if case["kind"] == "srv-replay":
        res = ctx.run_vh(["srv-replay"], case["cases"], timeout=3000)
        bad = [x for x in res if any(m["kind"] in RESP_KINDS for m in (x.get("observed") or []))]
    else:
        print(json.dumps(case)[:1500])
        bad = [case["kind"]]
    for x in bad:
        print("REPRODUCED:", json.dumps(x)[:800])
    return 1 if bad else 0
