"""C14 — graceful shutdown (DESIGN.md §5 C14)."""
import json, os, re
import srvlib
from vlib import Infra

LEVEL = "model_checking"
INV = ["TypeOK", "RebindOk", "ListenerReleased", "Drain", "DrainedAtStop", "Isolation", "GaugeExact", "Monotone", "Lag", "Conservation"]
C14_KINDS = ("await", "rebind", "response", "crash", "deadlock")


def run(ctx):
    ctx.assumptions += [
        "net/http: ListenAndServe = check shuttingDown; net.Listen; trackListener (re-check); accept loop — Shutdown = set flag; close tracked listeners; wait for active connections (transcribed in Server.tla from the Go 1.23 sources)",
        "gated replay serialises goroutines at the verif hooks (run-to-gate); timings inside net/http are covered by the aligned stress driver, not by enumeration",
    ]
    kinds = ["valid", "unsat"]
    mod = {"ServerRun.tla": srvlib.mc_module(kinds)}
    # 1. design level: all interleavings of stop vs. start-up steps of both servers and 1..2 in-flight requests
    nc = 1 if ctx.quick else 2
    ctx.tlc("ServerRun", srvlib.cfg(nc, invariants=INV, properties=["Terminates", "MonotoneStep"]), files=mod, label="Server mc (C14, %d clients)" % nc, timeout=1500)
    ctx.expect_mutant_violates("ServerRun", srvlib.cfg(1, wait=False, invariants=["ListenerReleased", "RebindOk"]), "mutant WaitForStart=FALSE (no join)", files=mod)
    ctx.expect_mutant_violates("ServerRun", srvlib.cfg(1, graceful=False, invariants=["Drain"]), "mutant Graceful=FALSE (Close instead of Shutdown)", files=mod)
    # 1b. the job combinators on their own, every shape (JobTree.tla), bound to the real SpawnJob / CombineJobs by trace validation
    import joblib
    joblib.run(ctx)
    # 2. behaviours -> gated schedule replay on the real server.Run
    n = 48 if ctx.quick else 600
    beh = srvlib.generate(ctx, kinds, 1, n // 2, True, "ServerGen C14 1 client") + srvlib.generate(ctx, kinds, 2, n // 2, True, "ServerGen C14 2 clients")
    with_inflight = sum(1 for b in beh if any(s["name"] == "stop" and any(w[0].startswith("prove.") for w in s["pre"]["waiting"]) for s in b["steps"]))
    res = srvlib.replay(ctx, beh)
    diverged = 0
    for b, mm, case in res:
        bad = [m for m in mm if m["kind"] in C14_KINDS]
        div = [m for m in mm if m["kind"] in ("waiting", "listener")]
        if bad:
            ctx.violation("gated replay of a Server.tla behaviour: %s (schedule %s)" % (bad[0]["detail"], srvlib.sched_of(b)),
                          dict(kind="srv-replay", cases=dict(mode="deletion", depth=2, batch=1, hookKeys=srvlib.hook_keys(), behaviours=[b]), mismatches=mm))
        elif div:
            diverged += 1
    ctx.samples.append(dict(schedule=srvlib.sched_of(beh[0]), reqs=beh[0]["reqs"]))
    # 3. timings inside net/http: aligned and free stress, start/stop cycles on the same addresses
    iters = 4000 if ctx.quick else 40000
    for mode, it in (("aligned", iters), ("free", iters // 4)):
        st = ctx.run_vh(["srv-stress"], dict(iterations=it, mode=mode, cycles=2), timeout=3000, allow_crash=True)
        for x in st["results"]:
            if not x["ok"]:
                ctx.violation("stress (%s): %s" % (mode, x.get("detail")), dict(kind="srv-stress", cases=x.get("case")))
            else:
                ctx.cov["stress_" + mode] = x.get("observed")
        if st["rc"] != 0:
            last = ""
            try:
                last = open(os.path.join(ctx.scratch, "stress-progress.txt")).read().splitlines()[-1]
            except Exception:
                pass
            # a bind failure in the FIRST cycle on a fresh address says nothing about shutdown (port taken by someone else)
            if ("server failed: listen tcp" in st["tail"] or "address already in use" in st["tail"]) and " cycle 0 " in last:
                raise Infra("stress driver could not bind a fresh address (%s): %s" % (last, st["tail"][-300:]))
            if "server failed: listen tcp" in st["tail"] or "address already in use" in st["tail"]:
                ctx.violation("stress (%s): a stopped server's start goroutine bound its listener after AwaitStop returned and the process panicked (%s): %s"
                              % (mode, last, [l for l in st["tail"].splitlines() if "panic" in l][:1]),
                              dict(kind="srv-stress", cases=dict(iterations=it, mode=mode, cycles=2)))
            else:
                raise Infra("stress driver died: " + st["tail"][-800:])
    # 4. command-line leg: `gnark-mbu start` (verif build) + SIGINT with k requests held at a handler hook; the process's own hook trace
    #    is validated by TLC against TraceJob.tla
    cli = ctx.build_cli()
    ctx.run_vh(["c09"], dict(mode="deletion", depth=2, batch=1, sequences=[], canary="valid"), timeout=1200)      # creates the cached keys file
    V, U, M = dict(method="POST", body="valid"), dict(method="POST", body="unsat"), dict(method="POST", body="malformed")
    scen = [dict(k=0, hold="", holdMs=0), dict(k=2, hold="prove.decoded", holdMs=500), dict(k=1, hold="prove.proved", holdMs=400, kinds=[U]), dict(k=2, hold="", holdMs=0, after=True),
            dict(k=2, hold="prove.decoded", holdMs=600, signals=3), dict(k=1, hold="prove.proved", holdMs=500, kinds=[V], signals=2)]
    if not ctx.quick:
        for hook in ("prove.enter", "prove.read", "prove.decoded", "prove.proved"):
            for k in (1, 2, 3):
                scen.append(dict(k=k, hold=hook, holdMs=300 + 100 * k, kinds=[V, U, M][:k] if hook != "prove.proved" else [V, U, V][:k]))
        scen.append(dict(k=3, hold="", holdMs=0))
    sg = ctx.run_vh(["srv-sigint"], dict(cli=cli, mode="deletion", depth=2, batch=1, dir=ctx.scratch, scenarios=scen), timeout=3000)
    if len(sg) != len(scen):
        raise Infra("srv-sigint returned %d results for %d scenarios" % (len(sg), len(scen)))
    files = {"TraceJobRun.tla": "---- MODULE TraceJobRun ----\nEXTENDS TraceJob\nRKS == {%s}\n====\n" % ", ".join(srvlib.RK[k] for k in ("valid", "unsat", "malformed", "get"))}
    tcfg = ("SPECIFICATION TraceSpec\nCONSTANTS\n Clients = {\"c1\", \"c2\", \"c3\"}\n ReqKinds <- RKS\n WaitForStart = TRUE\n Graceful = TRUE\n SharedParams = FALSE\n Wrapped = TRUE\n AllowStop = TRUE\n"
            "CONSTRAINT HighWater\nPOSTCONDITION TraceAccepted\nINVARIANTS Drain ListenerReleased Isolation GaugeExact\nCHECK_DEADLOCK FALSE\n")
    ncli = 0
    unexplained = []
    for sc, x in zip(scen, sg):
        if not x["ok"]:
            ctx.violation("gnark-mbu start + SIGINT with %d request(s) held at %s: %s" % (sc["k"], sc["hold"] or "no hook", x.get("detail")), dict(kind="srv-sigint", cases=x.get("case")))
            continue
        tf = x["observed"]["trace"]
        r = ctx.tlc("TraceJobRun", tcfg, files=files, workers=1, dfs=True, env_extra={"TRACE_FILE": tf}, label="TraceJob sigint k=%d hold=%s" % (sc["k"], sc["hold"]), allow_violation=True, timeout=600)
        m = re.search(r'<<"HWM", (\d+), (\d+)>>', r["out"])
        if not m:
            raise Infra("TraceJob gave no high-water mark:\n" + "\n".join(r["out"].splitlines()[-30:]))
        hwm, total = int(m.group(1)), int(m.group(2))
        if hwm != total + 1:
            lines = open(tf).read().splitlines()
            inv = re.search(r"Invariant (\w+) is violated", r["out"])
            why = inv.group(1) if inv else sigint_oracle(lines)
            if why:
                ctx.violation("hook trace of `gnark-mbu start` + SIGINT (k=%d, hold=%s) rejected by TraceJob.tla at line %d of %d (%s): %s" % (
                    sc["k"], sc["hold"], hwm, total, why, lines[hwm - 1] if hwm - 1 < len(lines) else "?"),
                    dict(kind="srv-sigint-trace", cases=dict(mode="deletion", depth=2, batch=1, scenarios=[sc]), trace=lines[:hwm]))
            else:
                # no action of Server.tla explains the event, but what the property itself says about this run holds (see sigint_oracle):
                # the implementation's protocol has changed shape; that is lost conformance, not a violation
                unexplained.append("k=%d hold=%s line %d: %s" % (sc["k"], sc["hold"], hwm, lines[hwm - 1] if hwm - 1 < len(lines) else "?"))
        elif not r["ok"]:
            raise Infra("TraceJob failed:\n" + "\n".join(r["out"].splitlines()[-30:]))
        else:
            ncli += 1
            ctx.states += r["distinct"]
            ctx.transitions += r["generated"]
    ctx.cov["sigint_scenarios_validated"] = ncli
    if unexplained and not ctx.violations:
        raise Infra("TraceJob.tla no longer explains the hook traces of `gnark-mbu start` although every direct observation the property makes holds "
                    "(all accepted requests answered, both servers stopped and their start goroutines returned before the outer AwaitStop returned, exit 0): "
                    "the shutdown protocol has changed shape and Server.tla needs updating. " + "; ".join(unexplained[:3]))
    if beh and diverged * 2 > len(beh) and not ctx.violations:
        raise Infra("%d of %d schedules are infeasible on the real code (hooks and Server.tla disagree) and no property violation was observed: binding broken" % (diverged, len(beh)))
    ctx.traces_validated = len(beh)
    ctx.evaluations = len(beh) + iters + iters // 4 + len(scen)
    ctx.cov["schedules_with_stop_while_requests_in_flight"] = with_inflight
    ctx.cov["schedules_diverged"] = diverged
    ctx.cov["rule"] = ("behaviours of ServerGen.tla (stop timed anywhere relative to both servers' start-up hooks and to 1..2 requests at every handler "
                       "progress point) replayed with every hook as a gate; at each decision the settled state (blocked goroutines, responses, AwaitStop "
                       "returned or not) must equal the spec's, then both addresses are bound; plus aligned ListenAndServe/Shutdown stress cycles")


def sigint_oracle(lines):
    """What C14 itself says about one recorded run of `gnark-mbu start` + SIGINT, independent of the shape of the job protocol.
    Returns a description of the first failure or None.  Server labels (m / p) come from the hook's own label string; the outer job is
    the one main() stops first."""
    ev = [json.loads(l) for l in lines]
    key = lambda e: (e.get("ev"), e.get("who"))
    pos = {}
    for i, e in enumerate(ev):
        pos.setdefault(key(e), []).append(i)
    if not ev or ev[-1].get("ev") != "exit":
        return "the trace does not end with the process's exit"
    end = len(ev) - 1
    outer = pos.get(("job.await_return", "c"), [end])[-1]
    for who, name in (("m", "metrics"), ("p", "prover")):
        for what in ("srv.shutdown.end", "srv.start.end"):
            at = pos.get((what, who))
            if not at:
                return "%s never happened for the %s server before the process exited" % (what, name)
            if at[0] > outer:
                return "waiting-for-stop returned (line %d) before %s of the %s server (line %d)" % (outer + 1, what, name, at[0] + 1)
    for (e, who), at in pos.items():
        if e == "prove.enter" and who:
            if len(pos.get(("prove.respond", who), [])) < len(at):
                return "request %s entered the handler and was never answered" % who
    return None


def replay(ctx, path):
    case = json.load(open(path))
    if case["kind"] == "srv-replay":
        res = ctx.run_vh(["srv-replay"], case["cases"], timeout=3000)
        bad = [x for x in res if any(m["kind"] in C14_KINDS for m in (x.get("observed") or []))]
    elif case["kind"] == "jobtree":
        # re-run the recorded shape against the real combinators and evaluate the property-level observation on every fresh run
        import joblib
        sh = joblib.SHAPES[case["shape"]]
        tf = os.path.join(ctx.scratch, "jobtree-replay.ndjson")
        res = ctx.run_vh(["jobtree"], dict(shape=sh, runs=400, traceFile=tf, twice=True), timeout=1800)
        lines = [json.loads(x) for x in open(tf)]
        bounds = [i for i, e in enumerate(lines) if e["ev"] == "reset"] + [len(lines)]
        bad = [x for x in res if not x["ok"]] + [w for w in (joblib.oracle(sh, lines[a:b]) for a, b in zip(bounds, bounds[1:])) if w][:3]
    elif case["kind"].startswith("srv-sigint"):
        ctx.run_vh(["c09"], dict(mode="deletion", depth=2, batch=1, sequences=[], canary="valid"), timeout=1200)
        c = dict(case["cases"], cli=ctx.build_cli(), dir=ctx.scratch)
        res = ctx.run_vh(["srv-sigint"], c, timeout=3000)
        bad = [x for x in res if not x["ok"]]
        if case["kind"] == "srv-sigint-trace":
            print("rejected trace prefix:")
            for l in case["trace"][-6:]:
                print("  ", l)
            bad = bad or ["trace rejected in the original run; re-run `bin/check C14` to validate the fresh trace"]
    else:
        st = ctx.run_vh(["srv-stress"], case["cases"], timeout=3000, allow_crash=True)
        bad = [x for x in st["results"] if not x["ok"]]
        if st["rc"] != 0:
            bad.append(dict(crash=st["tail"][-400:]))
    for x in bad:
        print("REPRODUCED:", json.dumps(x)[:800])
    return 1 if bad else 0
