"""C15 — a truncated proving-system file is always rejected, never half-loaded (DESIGN.md §5 C15)."""
import json
from concurrent.futures import ThreadPoolExecutor
import keyslib
from vlib import Infra, rng

LEVEL = "fault_enumeration"


def run(ctx):
    ctx.assumptions += [
        "section lengths are those of files actually written by the code under test (a synthetic 3..5-constraint Groth16 system wrapped in prover.ProvingSystem, and real (1,1) systems)",
        "a read that neither returns nor panics within 60 s is a hang",
    ]
    systems = [dict(id="syn1", kind="synthetic", depth=1, batch=9)]
    if not ctx.quick:
        systems.append(dict(id="syn2", kind="synthetic", depth=5, batch=2))
    real = [dict(id="del11", kind="real", mode="deletion", depth=1, batch=1)] + ([] if ctx.quick else [dict(id="ins11", kind="real", mode="insertion", depth=1, batch=1)])
    lay = keyslib.layout(ctx, systems + real)
    cli = ctx.build_cli()
    jobs = []
    for group, cutmode in ((systems, "all"), (real, "classes")):
        mod = {"KeysRun.tla": keyslib.module(group, lay, ["f"])}
        # Write; Crash(cut); Read for every cut offset TLC is given: NeverHalfLoaded, and the reader mutants must be refuted
        r = ctx.tlc("KeysRun", keyslib.cfg(3, cutmode, export=True), files=mod, label="KeysFile write;crash;read cuts=%s (%s)" % (cutmode, ",".join(s["id"] for s in group)),
                    timeout=2400, heap="16g")
        for v in ("ignore-cs-eof", "stop-after-vk"):
            ctx.expect_mutant_violates("KeysRun", keyslib.cfg(3, cutmode, variant=v), "KeysFile reader mutant %s (%s)" % (v, cutmode), files=mod)
        cuts = {}
        for t in r["traces"]:
            if len(t) == 3 and t[0]["op"] == "write" and t[1]["op"] == "crash" and t[2]["op"] == "read":
                if t[2]["ok"]:
                    raise Infra("spec lets a truncated file load")
                cuts.setdefault((t[0]["sys"], t[0]["fmt"]), []).append(t[1]["cut"])
        for s in group:
            for f in ("c", "r"):
                cs = sorted(set(cuts.get((s["id"], f), [])))
                total = sum(lay[s["id"]][f])
                if cutmode == "all" and cs != list(range(total)):
                    raise Infra("expected every offset 0..%d for %s/%s, got %d" % (total - 1, s["id"], f, len(cs)))
                if cutmode == "classes" and ctx.quick:
                    rr = rng(ctx.seed, "c15/%s/%s" % (s["id"], f))
                    b = [8, 8 + lay[s["id"]][f][1], 8 + lay[s["id"]][f][1] + lay[s["id"]][f][2]]
                    must = [c for c in cs if c in (0, 1, 7, 8, 9, total - 1) or any(abs(c - x) <= 1 for x in b) or c in (1048575, 1048576, 1048577, 2097152, 3145728, 4194303, 4194304, 4194305, 8388608, (total >> 20) << 20)]
                    rest = [c for c in cs if c not in must]
                    rr.shuffle(rest)
                    cs = sorted(set(must + rest[:14]))
                parts = 1 if cutmode == "all" else (2 if ctx.quick else 8)
                for k in range(parts):
                    sub = cs[k::parts]
                    if sub:
                        jobs.append(dict(path=lay[s["id"]]["path_" + f], id=s["id"], fmt=f, total=total, cuts=sub, cli=cli if s["kind"] == "real" else "",
                                         ncli=(1 if ctx.quick else 3) if (s["kind"] == "real" and k == 0) else 0))
    with ThreadPoolExecutor(8) as ex:
        results = list(ex.map(lambda j: ctx.run_vh(["c15"], j, timeout=3000, allow_crash=True), jobs))
    ncuts = 0
    outcomes = {}
    for j, st in zip(jobs, results):
        res = st["results"]
        if st["rc"] != 0:
            # reading a truncated file must never bring the process down (a panic in a goroutine of the reader cannot be recovered)
            try:
                cut = int(open(j["path"] + ".progress").read())
            except Exception:
                raise Infra("c15 driver died: " + st["tail"][-600:])
            ctx.violation("reading the first %d of %d bytes of a %s file (%s) crashes the process: %s" % (cut, j["total"], j["fmt"], j["id"], [l for l in st["tail"].splitlines() if "panic" in l or "fatal" in l][:2]),
                          dict(kind="c15", cases=dict(j, cuts=[cut]), layout={k: v for k, v in lay[j["id"]].items() if not k.startswith("path")}))
        ncuts += len(j["cuts"])
        for x in res:
            if x.get("kind") == "infra":
                raise Infra(x["detail"])
            if x.get("kind") == "truncated-summary":
                for k, v in (x.get("observed") or {}).items():
                    outcomes[k] = outcomes.get(k, 0) + v
            elif not x["ok"]:
                ctx.violation(x["detail"], dict(kind="c15", cases=dict(j, cuts=x["case"]["cuts"], ncli=j["ncli"]), layout={k: v for k, v in lay[j["id"]].items() if not k.startswith("path")}))
    ctx.samples += [dict(system=j["id"], fmt=j["fmt"], total=j["total"], cuts=j["cuts"][:8]) for j in jobs[:3]]
    ctx.evaluations = ncuts
    ctx.traces_validated = ncuts
    ctx.cov["distinct_nontrivial"] = ncuts
    ctx.cov["outcomes"] = outcomes
    ctx.cov["exhaustive"] = True
    ctx.cov["section_lengths"] = {k: {"c": v["c"], "r": v["r"]} for k, v in lay.items()}
    ctx.cov["rule"] = ("fault = the file ends at byte offset `cut` (crash / interrupted copy). Synthetic systems: EVERY offset 0..len-1 of both formats (TLC enumerates them with the "
                       "actual section lengths; each is read by UnsafeReadFrom under recover and a watchdog). Real (1,1) systems: the offset classes of KeysFile.tla (first 16 bytes, "
                       "+-64 bytes around every section boundary, strides inside the proving key and the constraint system, the tail), plus ReadSystemFromFile and the CLI commands "
                       "start/prove/verify/convert-to-raw on truncated files. A case is non-trivial when the prefix is non-empty; distinct = distinct (system, format, offset)")


def replay(ctx, path):
    case = json.load(open(path))
    c = case["cases"]
    # the file of the original run is gone: rebuild the layout for that system
    sysd = dict(id=c["id"], kind="synthetic" if c["id"].startswith("syn") else "real", mode="insertion" if c["id"].startswith("ins") else "deletion",
                depth={"syn1": 1, "syn2": 5}.get(c["id"], 1), batch={"syn1": 9, "syn2": 2}.get(c["id"], 1))
    lay = keyslib.layout(ctx, [sysd])
    c["path"] = lay[c["id"]]["path_" + c["fmt"]]
    c["total"] = sum(lay[c["id"]][c["fmt"]])
    c["cli"] = ctx.build_cli() if c.get("ncli") else ""
    res = ctx.run_vh(["c15"], c, timeout=3000)
    bad = [x for x in res if not x["ok"] and x.get("kind") != "truncated-summary"]
    for x in bad:
        print("REPRODUCED:", json.dumps(x)[:600])
    return 1 if bad else 0
