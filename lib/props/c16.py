"""C16 — parameter JSON round-trips exactly and rejects non-numbers (DESIGN.md §5 C16)."""
import json
from concurrent.futures import ThreadPoolExecutor
from vlib import Infra

LEVEL = "model_checking"
R = 21888242871839275222246405745257275088548364400416034343698204186575808495617
ALPHABET = ["0", "1", "9", "a", "f", "g", "x", "X", "b", "o", "_", "-", "+", ".", " ", "e"]


def num_cfg(maxlen, literals=False):
    return ("SPECIFICATION Spec\nCONSTANTS Alphabet = {%s}\nMaxLen = %d\nLiterals %s\nINVARIANTS EncoderNotation Export\nCHECK_DEADLOCK FALSE\n"
            % (", ".join('"%s"' % a for a in ALPHABET + (["2", "3", "4", "5", "6", "7", "8", "c", "d", "A", "B", "C", "D", "E", "F", "z", "O"] if literals else [])), maxlen,
               "<- LITS" if literals else "= {}"))


def run(ctx):
    ctx.assumptions += [
        "NumGrammar.tla transcribes Go's base-0 integer literal scanner (math/big); where the property leaves the verdict open (decimal, 0b/0o, '_', signs, digit strings with a wrong radix) only 'if accepted, the value is the denoted one' is required",
        "'identical' after a round trip = equal values and equal array dimensions (nil and empty slices are not distinguished)",
    ]
    # (i) numerals: every string up to MaxLen over a 16-symbol alphabet, one machine step per character
    maxlen = 3 if ctx.quick else 5
    r = ctx.tlc("NumGrammar", num_cfg(maxlen), label="NumGrammar all strings <= %d" % maxlen, timeout=3000, heap="24g")
    want = sum(16 ** k for k in range(maxlen + 1))
    if len(r["traces"]) != want:
        raise Infra("expected %d strings, got %d" % (want, len(r["traces"])))
    cases = r["traces"]
    # longer literals of the classes the property names (run through the same machine, character by character)
    extra = ["0x", "zz", " ", "1.0", "1e3", "0x1g", " 0x1", "0x1 ", "0x 1", "-", "+", "0b", "0o", "0x_", "_1", "1_", "1__0", "0xDEADbe", "0x000000ff",
             "0XFF", "12345", "-5", "0b101", "0o17", "017", "09", "1_000", "0x_ff", "0x1_0", "0x7ffffff", "0xABCDEF", "0x0", "00", "0x00"]
    lits = ", ".join("<<" + ", ".join('"%s"' % ch for ch in lit) + ">>" for lit in extra)
    r2 = ctx.tlc("NumLits", num_cfg(12, literals=True), files={"NumLits.tla": "---- MODULE NumLits ----\nEXTENDS NumGrammar\nLITS == {%s}\n====\n" % lits},
                 label="NumGrammar named literals")
    if len(r2["traces"]) != len(set(extra)):
        raise Infra("expected %d literal verdicts, got %d" % (len(set(extra)), len(r2["traces"])))
    cases = cases + r2["traces"]
    nproc = 8
    chunks = [cases[i::nproc] for i in range(nproc)]
    with ThreadPoolExecutor(nproc) as ex:
        results = list(ex.map(lambda ch: ctx.run_vh(["c16-num"], dict(cases=ch), timeout=3000) if ch else [], chunks))
    n = 0
    kinds = {}
    for res in results:
        for x in res:
            if x.get("kind") == "spec-vs-reference":
                raise Infra("NumGrammar.tla disagrees with Go's base-0 scanner (spec bug): %s" % json.dumps(x)[:300])
            n += 1
            kinds[x["expected"]] = kinds.get(x["expected"], 0) + 1
            if not x["ok"]:
                ctx.violation("numeral decoding disagrees with NumGrammar.tla: %s" % x.get("detail"), dict(kind="c16-num", cases=x.get("case")))
    if n != len(cases):
        raise Infra("harness returned %d results for %d strings" % (n, len(cases)))
    ctx.samples += [c for c in cases if c["kind"] == "must-accept"][:2] + [c for c in cases if c["kind"] == "must-reject"][:2]
    # (ii) round trip over shape x magnitude classes
    # incl. machine-word boundaries (31/32/63/64/127/128 bits): fast paths through native integers live there
    mags = [0, 1, R - 1, R, 2 ** 256 - 1, 255, 256 ** 30 + 7, 256 ** 31 - 1, 2 ** 300 + 5, 16, 0xabcdef, 2 ** 253,
            2 ** 31 - 1, 2 ** 31, 2 ** 32 - 1, 2 ** 32, 2 ** 63 - 1, 2 ** 63, 2 ** 63 + 5, 2 ** 64 - 1, 2 ** 64, 2 ** 127, 2 ** 128 - 1, 2 ** 128, 2 ** 192, 2 ** 255]
    shapes = []
    import itertools
    for mode in ("insertion", "deletion"):
        for b in range(0, 4):
            # every vector of row lengths over 0..3 (rectangular and ragged), plus a row count that differs from the batch size
            for rows in list(itertools.product(range(0, 4), repeat=b)) + [tuple([3] * (b + 1)), tuple([2] * max(0, b - 1))]:
                shapes.append('[mode |-> "%s", batch |-> %d, rows |-> <<%s>>]' % (mode, b, ", ".join(map(str, rows))))
    shapes = sorted(set(shapes))
    files = {"CodecRun.tla": "---- MODULE CodecRun ----\nEXTENDS ParamCodec\nSH == {%s}\nMG == <<%s>>\n====\n" % (", ".join(shapes), ", ".join('"%d"' % m for m in mags))}
    r = ctx.tlc("CodecRun", "SPECIFICATION Spec\nCONSTANTS Shapes <- SH\nMags <- MG\nINVARIANTS RoundTrip Export\nCHECK_DEADLOCK FALSE\n", files=files, label="ParamCodec shapes x magnitudes")
    rt = []
    for t in r["traces"]:
        p = t["p"]
        rt.append(dict(mode=p["mode"], start=p["start"], idxs=list(p["idxs"]), hash=p["hash"], pre=p["pre"], post=p["post"], ids=list(p["ids"]), proofs=[list(x) for x in p["proofs"]]))
    res = ctx.run_vh(["c16-rt"], dict(cases=rt))
    for x in res:
        if not x["ok"]:
            ctx.violation("parameter round trip disagrees with ParamCodec.tla: %s: %s" % (x["id"], x.get("detail")), dict(kind="c16-rt", cases=x.get("case")))
    if len([x for x in res if not x["id"].endswith("/later")]) != len(rt):
        raise Infra("round-trip harness returned %d results for %d cases" % (len(res), len(rt)))
    # (iii) index literals: 32-bit bounds
    idx = [dict(lit="0", accept=True, value="0"), dict(lit="4294967295", accept=True, value="4294967295"), dict(lit="1", accept=True, value="1"),
           dict(lit="4294967296", accept=False), dict(lit="-1", accept=False), dict(lit="1.5", accept=False), dict(lit='"3"', accept=False),
           dict(lit="18446744073709551616", accept=False), dict(lit="1e3", accept=False), dict(lit="null", accept=True, value="0") if False else dict(lit="true", accept=False)]
    res2 = ctx.run_vh(["c16-idx"], dict(cases=idx))
    for x in res2:
        if not x["ok"]:
            ctx.violation("index decoding: %s" % x.get("detail"), dict(kind="c16-idx", cases=x.get("case")))
    ctx.traces_validated = n + len(res) + len(res2)
    ctx.evaluations = ctx.traces_validated
    ctx.cov["strings_by_class"] = kinds
    ctx.cov["roundtrip_cases"] = len(rt)
    ctx.cov["exhaustive"] = True
    ctx.cov["rule"] = ("all %d strings of length <= %d over the alphabet %s run through the NumGrammar character machine and placed in the numeric positions of otherwise valid "
                       "documents decoded by the real UnmarshalJSON (verdict and value compared); every (shape, magnitude rotation) of ParamCodec.tla round-tripped through "
                       "json.Marshal/Unmarshal of both parameter types" % (want, maxlen, "".join(ALPHABET)))


def replay(ctx, path):
    case = json.load(open(path))
    res = ctx.run_vh([case["kind"]], case["cases"])
    bad = [x for x in res if not x["ok"]]
    for x in bad:
        print("REPRODUCED:", json.dumps(x)[:600])
    return 1 if bad else 0
