"""C17 — the Lean model under formal verification is the current circuit (DESIGN.md §5 C17)."""
import difflib, json, os
import artlib
from vlib import Infra, REPO

LEVEL = "translation_validation"


def run(ctx):
    ctx.assumptions += ["a definition = the text from `def Name` to the next `def`; two definitions are equal iff their texts are (SHA-256)",
                        "identifiers are collected from `SemaphoreMTB.X`, `open SemaphoreMTB renaming X`, `open SemaphoreMTB (X ...)` in Main.lean and FormalVerification/*.lean"]
    cli = ctx.build_cli()
    # batch sizes follow the hash input's block structure too (insertion batch 7 = three Keccak blocks, 16 / 33 = long input vectors)
    edims = [[30, 4], [3, 2], [30, 3], [3, 16]] if ctx.quick else [[30, 4], [3, 2], [30, 3], [1, 1], [2, 1], [10, 4], [16, 8], [20, 19], [31, 2], [4, 3], [3, 16], [2, 33], [16, 32], [3, 7]]
    procs, reps = ([1, 16], 1) if ctx.quick else ([1, 2, 16], 2)
    pl, mod, reps = artlib.plan(ctx, [], ["r1cs"], procs, reps, edims)
    keep = os.path.join(ctx.scratch, "extracted-30-4.lean")
    items = []
    for k, e in enumerate(pl["extracts"]):
        via_cli = (k % 2 == 1)
        # the service's deployment environment (MTB_MODE selects the mode of setup / start / prove ...) is not an input of extraction
        env = [[], ["MTB_MODE=insertion"], ["MTB_MODE=deletion"]][(k // 2) % 3] if via_cli else []
        items.append(("art-extract", dict(depth=e["depth"], batch=e["batch"], cli=cli if via_cli else "", env=env, dir=ctx.scratch, prev=os.path.join(REPO, "formal-verification", "FormalVerification.lean"),
                                          keep=keep if (e["depth"], e["batch"], via_cli) == (30, 4, False) or (e["depth"], e["batch"]) == (30, 4) and not os.path.exists(keep) else ""), e["procs"]))
    # repetition: Go randomises map iteration and goroutine scheduling per run, so the same dimensions are also extracted many times
    # within one process (cheap), every repetition being one more Extract event of the trace
    for (d, b), n in (((3, 2), 40), ((30, 4), 12)) if ctx.quick else (((3, 2), 200), ((30, 4), 60), ((2, 1), 100), ((10, 4), 40)):
        items.append(("art-extract", dict(depth=d, batch=b, cli="", dir=ctx.scratch, prev="", keep="", reps=n - 1), 4))
    recs = artlib.execute(ctx, items, nproc=8)
    com = ctx.run_vh(["art-committed"], dict(repo=REPO))
    if len(com) != 1:
        raise Infra("art-committed returned %d records" % len(com))
    recs = recs + com + [dict(event="end")]
    bad = artlib.validate(ctx, recs, mod, reps, "Artifacts trace (%d extractions + committed model)" % len(items))
    programs = len(com[0]["defs"])
    if bad is not None:
        r = recs[bad - 1]
        if r["event"] == "extract":
            prev = [x for x in recs[:bad - 1] if x["event"] == "extract" and (x["depth"], x["batch"]) == (r["depth"], r["batch"])]
            names = sorted(n for n in set(r["defs"]) | set(prev[0]["defs"] if prev else {}) if prev and prev[0]["defs"].get(n) != r["defs"].get(n))
            sh = r.get("shape") or {}
            incomplete = not r["err"] and not (sh.get("closed") and sh.get("mains") == ["DeletionMbuCircuit", "InsertionMbuCircuit"] and sh.get("dangling") == 0)
            why = ("extraction fails: " + r["err"]) if r["err"] else ("extraction at (%d,%d) reports success but the model is incomplete: namespace closed=%s, top-level circuits=%s, gadgets used but not defined=%s" % (
                r["depth"], r["batch"], sh.get("closed"), sh.get("mains"), sh.get("dangling"))) if incomplete else "extraction at (%d,%d) is not a function of depth and batch: %d definitions differ or are missing between two runs (%s vs %s): %s" % (
                r["depth"], r["batch"], len(names), prev[0].get("via") if prev else "?", r.get("via"), names[:4])
            ctx.violation(why, dict(kind="c17", rejected={k: v for k, v in r.items() if k != "defs"}))
        else:
            ex = [x for x in recs if x["event"] == "extract" and (x["depth"], x["batch"]) == (30, 4) and not x["err"]]
            c = com[0]
            diff = sorted(n for n in set(ex[0]["defs"]) | set(c["defs"]) if ex[0]["defs"].get(n) != c["defs"].get(n)) if ex else []
            missing = sorted(n for n in c["refs"] if n not in c["defs"])
            udiff = ""
            if diff and os.path.exists(keep):
                udiff = "".join(list(difflib.unified_diff(open(os.path.join(REPO, "formal-verification", "FormalVerification.lean")).read().splitlines(True),
                                                          open(keep).read().splitlines(True), "committed", "extracted(30,4)", n=1))[:80])
            why = ("the committed Lean model differs from the extraction at depth 30 / batch 4 in definitions %s" % diff[:6]) if diff else \
                  ("the proof files refer to definitions missing from the committed model: %s" % missing[:6]) if missing else "committed model / extraction mismatch (whole-file digest)"
            ctx.violation(why, dict(kind="c17", differing_definitions=diff, missing_references=missing, diff=udiff))
    ctx.samples += [dict(name=n, digest=d) for n, d in list(com[0]["defs"].items())[:3]]
    ctx.cov["programs"] = programs
    ctx.cov["disagreements_checked"] = programs * len(items)
    ctx.cov["extractions"] = len([r for r in recs if r.get("event") == "extract"])
    ctx.cov["references_resolved"] = len(com[0]["refs"])
    ctx.evaluations = len(items)
    ctx.traces_validated = len(items)
    ctx.cov["rule"] = ("programs = the %d definitions of the committed Lean model; each is compared (SHA-256 of its text) with the same-named definition of every extraction at (30,4) in fresh "
                       "processes under different GOMAXPROCS, through the library and through `gnark-mbu extract-circuit`; other (depth, batch) are extracted repeatedly for determinism and "
                       "success; every identifier used by the proof files must be defined. The recorded history is validated by TLC against the Artifacts.tla monitor" % programs)


def replay(ctx, path):
    case = json.load(open(path))
    print(json.dumps({k: v for k, v in case.items() if k != "diff"})[:1500])
    print(case.get("diff", "")[:4000])
    return 1
