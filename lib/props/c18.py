"""C18 — the off-chain Poseidon tree matches a full recomputation after any history (DESIGN.md §5 C18)."""
import json, os, re
from concurrent.futures import ThreadPoolExecutor
from vlib import Infra

LEVEL = "model_checking"
INV = "RootIsRecomputation ProofAuthenticates OthersUnchanged EmptyTable CachedHashes"


def cfg(depth, maxops, vals=("E0", "a", "b"), cands='"all"', export=True, view=False, mode="sym", spec="Spec"):
    c = ("SPECIFICATION %s\nCONSTANTS FieldMode = \"bn254\"\nP = 7\nHashMode = \"%s\"\nDepth = %d\nVals = {%s}\nIndexCands %s\nMaxOps = %d\nINVARIANTS %s%s\nCHECK_DEADLOCK FALSE\n"
         % (spec, mode, depth, ", ".join('"%s"' % v for v in vals), ('= {}' if cands == '"all"' else "<- CandsDef"), maxops, INV, " Export" if export else ""))
    if view:
        c += "VIEW NoHistView\n"
    return c


def cand_paths(depth, seed):
    import random
    r = random.Random("c18/%s/%d" % (seed, depth))
    ps = [[0] * depth, [1] * depth, [0] + [1] * (depth - 1), [1] + [0] * (depth - 1), [i % 2 for i in range(depth)],
          [r.randrange(2) for _ in range(depth)], [r.randrange(2) for _ in range(depth)]]
    out = []
    for p in ps:
        if p not in out:
            out.append(p)
    return "{" + ", ".join("<<" + ",".join(map(str, p)) + ">>" for p in out) + "}"


def run(ctx):
    ctx.assumptions += [
        "symbolic instance: the hash is a free constructor (collision-freeness is an explicit assumption); terms are evaluated by the harness with the iden3 Poseidon reference",
        "concrete instance (trace validation): Poseidon.tla over BigField is the hash (KAT-pinned, C05)",
    ]
    # 1. design level, history hidden by a VIEW: every reachable tree at depth <= 3 within MaxOps updates
    for d, m in ((1, 4), (2, 4), (3, 3 if ctx.quick else 4)):
        ctx.tlc("PoseidonTree", cfg(d, m, export=False, view=True), label="PoseidonTree mc depth=%d ops<=%d" % (d, m), timeout=1800)
    # 2. behaviours: all histories at small depth; candidate-path histories at depth 8..32
    hists = []
    plan = [(1, 3, '"all"', None), (2, 3, '"all"', None), (3, 2, '"all"', None)] if ctx.quick else [(1, 4, '"all"', None), (2, 4, '"all"', None), (3, 3, '"all"', None)]
    for d, m, cands, sim in plan:
        r = ctx.tlc("PoseidonTree", cfg(d, m, cands=cands), label="PoseidonTree gen depth=%d ops=%d" % (d, m), timeout=2400, heap="16g")
        want = (2 ** d * 3) ** m
        if len(r["traces"]) != want:
            raise Infra("depth %d ops %d: expected %d histories, got %d" % (d, m, want, len(r["traces"])))
        hists += r["traces"]
    for d in ((8, 32) if ctx.quick else (4, 8, 16, 31, 32)):
        n = 60 if ctx.quick else 600
        files = {"TreeRun.tla": "---- MODULE TreeRun ----\nEXTENDS PoseidonTree\nCandsDef == %s\n====\n" % cand_paths(d, ctx.seed)}
        r = ctx.tlc("TreeRun", cfg(d, 6, cands="def"), files=files, label="PoseidonTree simulate depth=%d" % d, simulate="num=%d" % (n // 4), depth=7, workers=4, timeout=900)
        seen = set()
        for t in r["traces"]:
            k = json.dumps(t, sort_keys=True)
            if k not in seen:
                seen.add(k)
                hists.append(t)
    # long histories (hundreds to thousands of materialised nodes): sparse far-apart leaves at depth 32 / 20, dense consecutive leaves at depth 12.
    # The structure's behaviour may depend on how much has been allocated so far (slabs, caches, growth boundaries), which no short history reaches.
    import random
    longs = [(32, "sparse", 80, 70, s) for s in range(2 if ctx.quick else 6)] + [(12, "dense", 640, 400, 0)]
    if not ctx.quick:
        longs += [(20, "sparse", 120, 110, 1), (12, "dense", 900, 800, 1), (10, "dense", 700, 700, 2)]      # measured: 400 dense ops 29 s; the root term grows with the history

    def gen_long(spec):
        d, kind, ncand, ops, k = spec
        r = random.Random("c18-long/%s/%s" % (ctx.seed, spec))
        ps = set()
        if kind == "sparse":
            while len(ps) < ncand:
                ps.add(tuple(r.randrange(2) for _ in range(d)))
        else:
            base = r.randrange(0, 2 ** d - ncand + 1) if 2 ** d > ncand else 0
            ps = {tuple((i >> (d - 1 - b)) & 1 for b in range(d)) for i in range(base, min(2 ** d, base + ncand))}
        files = {"TreeRun.tla": "---- MODULE TreeRun ----\nEXTENDS PoseidonTree\nCandsDef == {%s}\n====\n" % ", ".join("<<" + ",".join(map(str, q)) + ">>" for q in sorted(ps))}
        c = cfg(d, ops, cands="def").replace("INVARIANTS " + INV, "INVARIANTS RootIsRecomputation ProofAuthenticates")
        rr = ctx.tlc("TreeRun", c, files=files, label="PoseidonTree long %s history depth=%d ops=%d" % (kind, d, ops), simulate="num=1", depth=ops + 1, workers=1, timeout=2400, heap="8g")
        if len(rr["traces"]) != 1 or len(rr["traces"][0]["ops"]) != ops:
            raise Infra("long history %s: TLC produced %d traces" % (spec, len(rr["traces"])))
        return rr["traces"][0]

    with ThreadPoolExecutor(6) as ex:
        long_hists = list(ex.map(gen_long, longs))
    ctx.cov["long_histories"] = [dict(depth=s[0], kind=s[1], candidate_leaves=s[2], ops=s[3]) for s in longs]
    nproc = 8
    chunks = [hists[i::nproc] for i in range(nproc)] + [[h] for h in long_hists]
    hists = hists + long_hists
    nproc = len(chunks)
    with ThreadPoolExecutor(nproc) as ex:
        results = list(ex.map(lambda ch: ctx.run_vh(["c18"], dict(histories=ch), timeout=3000) if ch else [], chunks))
    n = 0
    for res in results:
        for x in res:
            n += 1
            if not x["ok"]:
                ctx.violation("poseidon_tree disagrees with PoseidonTree.tla: %s: %s" % (x["id"], x.get("detail")), dict(kind="c18", cases=x.get("case")))
    if n != len(hists):
        raise Infra("harness returned %d results for %d histories" % (n, len(hists)))
    ctx.samples.append(hists[0])
    ctx.samples.append(hists[-1])
    # 3. code -> spec: random histories recorded from the real tree, validated by TLC with the real Poseidon
    depths = [1, 2, 3, 8, 16, 32] if ctx.quick else [1, 2, 3, 4, 5, 8, 13, 16, 20, 31, 32]
    ops = 4 if ctx.quick else 6
    per_depth = 1 if ctx.quick else 4
    ev = ctx.run_vh(["c18-record"], dict(depths=depths, ops=ops, traces=len(depths) * per_depth))
    validated = 0

    def validate(d):
        lines = [e for e in ev if e["depth"] == d]
        path = os.path.join(ctx.scratch, "tree-trace-%d.ndjson" % d)
        with open(path, "w") as fh:
            for e in lines:
                fh.write(json.dumps(e) + "\n")
        c = cfg(d, 1000000, export=False, mode="bn254", spec="TraceSpec") + "CONSTRAINT HighWater\nPOSTCONDITION TraceAccepted\n"
        r = ctx.tlc("TraceTree", c, workers=1, dfs=True, env_extra={"TRACE_FILE": path}, label="TraceTree depth=%d (%d events)" % (d, len(lines)),
                    allow_violation=True, timeout=2400)
        return d, lines, r

    with ThreadPoolExecutor(8) as ex:
        outs = list(ex.map(validate, depths))
    for d, lines, r in outs:
        m = re.search(r'<<"HWM", (\d+), (\d+)>>', r["out"])
        if not m:
            raise Infra("TraceTree did not report a high-water mark:\n" + "\n".join(r["out"].splitlines()[-30:]))
        hwm, total = int(m.group(1)), int(m.group(2))
        if hwm != total + 1:
            bad = lines[hwm - 1] if hwm - 1 < len(lines) else None
            inv = re.search(r"Invariant (\w+) is violated", r["out"])
            ctx.violation("recorded tree trace rejected by TraceTree.tla at event %d of %d (depth %d)%s: %s" % (
                hwm, total, d, " invariant " + inv.group(1) if inv else "", json.dumps(bad)[:300]),
                dict(kind="c18-trace", depth=d, events=lines[:hwm], rejected_at=hwm))
        elif not r["ok"]:
            raise Infra("TraceTree failed:\n" + "\n".join(r["out"].splitlines()[-30:]))
        else:
            ctx.states += r["distinct"]
            ctx.transitions += r["generated"]
            validated += per_depth
    ctx.traces_validated = n + validated
    ctx.evaluations = n + validated
    ctx.cov["spec_histories_replayed"] = n
    ctx.cov["recorded_traces_validated"] = validated
    ctx.cov["rule"] = ("every history of <= MaxOps updates over all leaves and values {0,a,b} at depth 1..3 (exhaustive) and simulated histories over candidate paths at "
                       "depth 8..32, and long histories (70 far-apart leaves at depth 32, 400+ consecutive leaves at depth 12; thousands of nodes) are applied to the real PoseidonTree: Root() and every proof element must equal the interpretation of the spec's terms after every "
                       "step; seeded random histories recorded from the real tree at depths up to 32 are validated by TraceTree.tla with the real Poseidon")


def replay(ctx, path):
    case = json.load(open(path))
    if case["kind"] == "c18":
        res = ctx.run_vh(["c18"], case["cases"])
        bad = [x for x in res if not x["ok"]]
    else:
        print("recorded trace prefix (rejected at event %d):" % case["rejected_at"])
        for e in case["events"][-3:]:
            print(json.dumps(e)[:400])
        bad = [case["rejected_at"]]
    for x in bad:
        print("REPRODUCED:", json.dumps(x)[:600])
    return 1 if bad else 0
