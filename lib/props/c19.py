"""C19 — the command-line pipeline composes and its exit status tells the truth (DESIGN.md §5 C19)."""
import json, os, random, shutil, signal, socket, subprocess, tempfile, time, urllib.request, urllib.error
from concurrent.futures import ThreadPoolExecutor
from vlib import Infra, rng

LEVEL = "model_checking"
DIMS = {"A": (1, 1), "B": (2, 1)}


def cfg(maxsteps, export=False, view=True):
    c = ('SPECIFICATION Spec\nCONSTANTS KeyFiles = {"k1", "k2"}\nDims = {"A", "B"}\nMaxSteps = %d\nINVARIANTS TruthfulExit%s\nCHECK_DEADLOCK FALSE\n'
         % (maxsteps, " Export" if export else ""))
    if view:
        c += "VIEW NoHistView\n"
    return c


class World:
    """Executes Cli.tla behaviours with the real binary in a scratch directory."""

    pkvk = ("", "")

    def __init__(self, cli, base, seed):
        self.cli, self.seed = cli, seed
        self.dir = tempfile.mkdtemp(prefix="cli-", dir=base)
        self.params = None      # text of the parameter document (stdin of prove)
        self.proof = None       # text of the proof (stdin of verify)
        self.hash = None        # input hash of the batch the current proof was made for
        self.r = random.Random(seed)

    def path(self, k):
        return os.path.join(self.dir, k + ".ps")

    def run(self, args, stdin=None, timeout=600):
        p = subprocess.run([self.cli] + args, input=stdin, capture_output=True, text=True, timeout=timeout, cwd=self.dir)
        return p.returncode, p.stdout, p.stderr

    def mode_args(self, m):
        return [] if m == "" else ["--mode", m]

    def step(self, s):
        """returns (exit0, stdout_kind, detail) observed for spec step s"""
        cmd = s["cmd"]
        if cmd == "setup":
            d, b = DIMS[s["dim"]]
            rc, out, err = self.run(["setup"] + self.mode_args(s["mode"]) + ["--output", self.path(s["key"]), "--tree-depth", str(d), "--batch-size", str(b)])
            return rc == 0, "empty" if out.strip() == "" else "other", err
        if cmd == "damage":
            p = self.path(s["key"])
            if s["how"] == "garbage":
                with open(p, "wb") as fh:
                    fh.write(bytes(self.r.randrange(256) for _ in range(4096)))
            else:
                size = os.path.getsize(p)
                with open(p, "r+b") as fh:
                    fh.truncate(self.r.choice([1000, size // 2, size - 1, 8, 7]))
            return True, "empty", ""
        if cmd == "remove":
            os.remove(self.path(s["key"]))
            return True, "empty", ""
        if cmd == "gen-test-params":
            d, b = DIMS[s["dim"]]
            rc, out, err = self.run(["gen-test-params"] + self.mode_args(s["mode"]) + ["--tree-depth", str(d), "--batch-size", str(b)])
            kind = "empty" if out.strip() == "" else "other"
            self.params = None
            if rc == 0:
                try:
                    doc = json.loads(out)
                    if "inputHash" in doc and "preRoot" in doc and out.count("\n") == 1:
                        kind = "params"
                        if not s["valid"]:
                            doc["postRoot"] = hex((int(doc["postRoot"], 16) + 1) % (2 ** 253))      # unprovable parameters
                        self.params = json.dumps(doc)
                        self.params_hash = doc["inputHash"]
                except Exception:
                    pass
            return rc == 0, kind, err
        if cmd == "prove":
            rc, out, err = self.run(["prove"] + self.mode_args(s["mode"]) + ["--keys-file", self.path(s["key"])], stdin=self.params or "")
            kind = "empty" if out == "" else "other"
            self.proof = out if rc == 0 else ""     # `prove ... > proof` overwrites the target either way
            if out != "":
                lines = out.split("\n")
                try:
                    doc = json.loads(lines[0])
                    if len(lines) == 2 and lines[1] == "" and set(doc) == {"ar", "bs", "krs"}:
                        kind = "proof"
                except Exception:
                    pass
            if rc == 0:
                self.hash = self.params_hash
            if rc != 0 and err.strip() == "":
                return False, kind, "FAILED-SILENTLY"
            return rc == 0, kind, err
        if cmd == "tamper":
            doc = json.loads(self.proof)
            v = int(doc["ar"][0], 16)
            doc["ar"][0] = hex(v ^ 1)
            self.proof = json.dumps(doc) + "\n"
            return True, "empty", ""
        if cmd == "blank":
            self.proof = "" if s["how"] == "empty" else " \n\t\n"
            return True, "empty", ""
        if cmd == "verify":
            h = {"own": self.hash or "0x1", "other": hex((int(self.hash or "0x1", 16) + 1)), "junk": "zz"}[s["hash"]]
            rc, out, err = self.run(["verify"] + self.mode_args(s["mode"]) + ["--keys-file", self.path(s["key"]), "--input-hash", h], stdin=self.proof or "")
            if rc != 0 and err.strip() == "":
                return False, "empty" if out == "" else "other", "FAILED-SILENTLY"
            return rc == 0, "empty" if out == "" else "other", err
        if cmd in ("export-vk", "export-solidity", "export-solidity-stdout"):
            out_path = os.path.join(self.dir, "export.out")
            if os.path.exists(out_path):
                os.remove(out_path)
            args = [cmd.replace("-stdout", ""), "--keys-file", self.path(s["key"])] + ([] if cmd.endswith("stdout") else ["--output", out_path])
            rc, out, err = self.run(args)
            kind = "empty" if out == "" else ("solidity" if "pragma solidity" in out and "verifyProof" in out else "other")
            if rc == 0 and not cmd.endswith("stdout") and (not os.path.exists(out_path) or os.path.getsize(out_path) == 0):
                return True, "other", "exit 0 but no artefact was written"
            return rc == 0, kind, err
        if cmd == "r1cs":
            out_path = os.path.join(self.dir, "r1cs.out")
            rc, out, err = self.run(["r1cs"] + self.mode_args(s["mode"]) + ["--output", out_path, "--tree-depth", str(s["depth"]), "--batch-size", "1"])
            return rc == 0, "empty" if out == "" else "other", err
        if cmd == "import-setup":
            # pk / vk "generated elsewhere": exported once per check run from a real setup by the harness (art-build, path "setup")
            pk, vk = self.pkvk
            if not s["have"]:
                pk, vk = os.path.join(self.dir, "absent-pk"), os.path.join(self.dir, "absent-vk")
            rc, out, err = self.run(["import-setup"] + self.mode_args(s["mode"]) + ["--output", self.path(s["key"]), "--pk", pk, "--vk", vk, "--tree-depth", "1", "--batch-size", "1"])
            return rc == 0, "empty" if out == "" else "other", err
        if cmd == "extract-circuit":
            out_path = os.path.join(self.dir, "model.lean")
            rc, out, err = self.run(["extract-circuit", "--output", out_path, "--tree-depth", "2", "--batch-size", "1"])
            if rc == 0 and (not os.path.exists(out_path) or "namespace SemaphoreMTB" not in open(out_path).read()):
                return True, "other", "exit 0 but no Lean model was written"
            return rc == 0, "empty" if out == "" else "other", err
        if cmd == "serve":
            return self.serve(s)
        if cmd == "convert-to-raw":
            rc, out, err = self.run(["convert-to-raw", "--input", self.path(s["key"]), "--output", self.path(s["to"])])
            return rc == 0, "empty" if out == "" else "other", err
        raise Infra("unknown step " + cmd)

    @staticmethod
    def free_ports():
        """two loopback ports from a range below the kernel's ephemeral range and above the Go harness's own (10000-30000)"""
        out = []
        for _ in range(200):
            p = random.SystemRandom().randrange(30001, 32700)
            with socket.socket() as so:
                try:
                    so.bind(("127.0.0.1", p))
                except OSError:
                    continue
            if p not in out:
                out.append(p)
            if len(out) == 2:
                return out
        raise Infra("no free loopback port")

    def http(self, url, data=None, timeout=60):
        """returns (status, body) or (None, error text)"""
        try:
            rq = urllib.request.Request(url, data=data, method="POST" if data is not None else "GET")
            with urllib.request.urlopen(rq, timeout=timeout) as rs:
                return rs.status, rs.read().decode("utf-8", "replace")
        except urllib.error.HTTPError as e:
            return e.code, e.read().decode("utf-8", "replace")
        except Exception as e:
            return None, str(e)

    def serve(self, s):
        """`gnark-mbu start`, one POST of the parameter file once the service answers, SIGINT.  Returns (exit0, answer kind, detail)."""
        for attempt in range(3):
            pa, ma = self.free_ports()
            proc = subprocess.Popen([self.cli, "start"] + self.mode_args(s["mode"]) + ["--keys-file", self.path(s["key"]), "--prover-address", "127.0.0.1:%d" % pa,
                                     "--metrics-address", "127.0.0.1:%d" % ma], stdout=subprocess.PIPE, stderr=subprocess.PIPE, text=True, cwd=self.dir)
            up = False
            deadline = time.time() + 120
            while time.time() < deadline and proc.poll() is None:
                st, _ = self.http("http://127.0.0.1:%d/prove" % pa, timeout=5)
                st2, _ = self.http("http://127.0.0.1:%d/metrics" % ma, timeout=5)
                if st == 405 and st2 == 200:
                    up = True
                    break
                time.sleep(0.05)
            if not up:
                if proc.poll() is None:
                    proc.kill()
                    proc.communicate()
                    return True, "other", "`start` neither exited nor answered on both addresses within 120 s"
                out, err = proc.communicate()
                if "address already in use" in err and attempt < 2:
                    continue        # somebody else took the port between the probe and the bind: not a verdict
                if proc.returncode == 0:
                    return True, "empty", "`start` exited with status 0 without ever serving"
                return False, "empty", "FAILED-SILENTLY" if err.strip() == "" else err
            kind, detail = "empty", ""
            if self.params is not None:
                st, body = self.http("http://127.0.0.1:%d/prove" % pa, data=self.params.encode(), timeout=300)
                if st == 200:
                    kind = "other"
                    try:
                        if set(json.loads(body)) == {"ar", "bs", "krs"}:
                            kind = "proof"
                            self.proof = body + "\n"
                            self.hash = self.params_hash
                    except Exception:
                        pass
                elif st == 400:
                    kind = "error"
                    try:
                        if set(json.loads(body)) != {"code", "message"}:
                            kind = "other"
                    except Exception:
                        kind = "other"
                else:
                    kind, detail = "other", "POST /prove: status %s %s" % (st, body[:200])
            proc.send_signal(signal.SIGINT)
            try:
                out, err = proc.communicate(timeout=120)
            except subprocess.TimeoutExpired:
                proc.kill()
                proc.communicate()
                return False, kind, "`start` did not exit within 120 s after SIGINT"
            if proc.returncode != 0:
                return False, kind, "`start` exit status %s after SIGINT although it was serving: %s" % (proc.returncode, err[-300:])
            return True, kind, detail or err
        raise Infra("`start` could not bind fresh loopback ports three times in a row")

    def close(self):
        shutil.rmtree(self.dir, ignore_errors=True)


def run_behaviour(cli, base, seed, steps):
    w = World(cli, base, seed)
    try:
        for i, s in enumerate(steps):
            try:
                ok, kind, err = w.step(s)
            except subprocess.TimeoutExpired:
                return dict(step=i, detail="`gnark-mbu %s` did not finish within 10 minutes" % s["cmd"])
            if s["exit0"] == "any":
                # outcome left open by the spec (keys of the other known mode); a success must still be a well-formed one
                if s["cmd"] == "prove" and ok and kind != "proof":
                    return dict(step=i, detail="`prove` exits 0 but wrote %s on standard output" % kind)
                continue
            if ok != (s["exit0"] == "yes"):
                return dict(step=i, detail="`%s` exit status %s, Cli.tla says %s. stderr: %s" % (
                    " ".join("%s=%s" % kv for kv in s.items() if kv[0] not in ("exit0", "stdout")), "0" if ok else "non-zero", "0" if s["exit0"] == "yes" else "non-zero", (err or "")[-300:]))
            if s["cmd"] == "serve" and s["stdout"] != "any" and kind != s["stdout"]:
                return dict(step=i, detail="`start` (mode %r, keys %s): POST /prove of the parameter file answered %s, Cli.tla says %s. %s" % (s["mode"], s["key"], kind, s["stdout"], (err or "")[-300:]))
            if s["cmd"] in ("prove", "gen-test-params", "export-solidity-stdout") and kind != s["stdout"]:
                return dict(step=i, detail="`%s` wrote %s on standard output, Cli.tla says %s" % (s["cmd"], kind, s["stdout"]))
            if err == "FAILED-SILENTLY":
                return dict(step=i, detail="`%s` failed without a message on standard error" % s["cmd"])
        return None
    finally:
        w.close()


def pipe_loop(cli, base, seed, mode, dim, n, docs=None):
    """setup once, then n x (params | prove | verify): many independently randomised proofs.  docs: parameter documents (text, hash) of
    valid batches in the tool's own notation, cycled through; without them the fixed gen-test-params vector is used."""
    d, b = DIMS[dim]
    w = World(cli, base, seed)
    bad = []
    short = 0
    try:
        rc, out, err = w.run(["setup", "--mode", mode, "--output", w.path("k"), "--tree-depth", str(d), "--batch-size", str(b)])
        if rc != 0:
            return [dict(iteration=-1, detail="setup failed: " + err[-300:])], 0
        rc, params, err = w.run(["gen-test-params", "--mode", mode, "--tree-depth", str(d), "--batch-size", str(b)])
        h = json.loads(params)["inputHash"]
        fixed = (params, h)
        for i in range(n):
            params, h = fixed if not docs or i == 0 else docs[(i - 1) % len(docs)]
            rc, proof, err = w.run(["prove", "--mode", mode, "--keys-file", w.path("k")], stdin=params)
            if rc != 0:
                bad.append(dict(iteration=i, detail="prove failed on generated parameters: " + err[-300:]))
                break
            doc = json.loads(proof)
            coords = doc["ar"] + doc["bs"][0] + doc["bs"][1] + doc["krs"]
            if any(len(c) < 66 for c in coords):
                short += 1
            rc, out, err = w.run(["verify", "--mode", mode, "--keys-file", w.path("k"), "--input-hash", h], stdin=proof)
            if rc != 0:
                bad.append(dict(iteration=i, detail="verify exits non-zero for a proof `prove` just wrote for the same keys and hash %s (coordinates %s): %s" % (h, coords, err[-200:]), proof=proof))
                break
    finally:
        w.close()
    return bad, short


def run(ctx):
    ctx.assumptions += ["the keys file does not record the mode: verify's verdict is specified from the keys and the hash alone (a --mode naming the other known mode does not change it)",
                        "dimensions A = (depth 1, batch 1), B = (depth 2, batch 1); files are damaged outside the tool (truncation to 7 / 8 / 1000 / half / len-1 bytes, 4 KB of garbage)"]
    cli = ctx.build_cli()
    ctx.run_vh(["art-build"], dict(mode="deletion", depth=1, batch=1, path="setup", cli="", dir=ctx.scratch), timeout=900)
    World.pkvk = (os.path.join(ctx.scratch, "pk-deletion-1-1"), os.path.join(ctx.scratch, "vk-deletion-1-1"))
    ctx.tlc("Cli", cfg(5 if ctx.quick else 6), label="Cli mc (all command sequences, 2 keys files, 2 dims)", timeout=2400, heap="16g")
    # behaviours: fixed pipelines every run + TLC-simulated sequences
    K = lambda **kw: kw
    ins, dele = "insertion", "deletion"
    fixed = []
    for m, o, dim in ((dele, ins, "A"), (ins, dele, "B")):
        fixed.append([K(cmd="setup", key="k1", mode=m, dim=dim, exit0="yes", stdout="empty"), K(cmd="gen-test-params", mode=m, dim=dim, valid=True, exit0="yes", stdout="params"),
                      K(cmd="prove", key="k1", mode=m, exit0="yes", stdout="proof"), K(cmd="verify", key="k1", mode=m, hash="own", exit0="yes", stdout="empty"),
                      K(cmd="verify", key="k1", mode=m, hash="other", exit0="no", stdout="empty"), K(cmd="verify", key="k1", mode=m, hash="junk", exit0="no", stdout="empty"),
                      K(cmd="verify", key="k1", mode="", hash="own", exit0="no", stdout="empty"), K(cmd="verify", key="k1", mode="bogus", hash="own", exit0="no", stdout="empty"),
                      K(cmd="verify", key="k1", mode=o, hash="own", exit0="yes", stdout="empty"), K(cmd="verify", key="k2", mode=m, hash="own", exit0="no", stdout="empty"),
                      K(cmd="convert-to-raw", key="k1", to="k2", exit0="yes", stdout="empty"), K(cmd="verify", key="k2", mode=m, hash="own", exit0="yes", stdout="empty"),
                      K(cmd="tamper", exit0="yes", stdout="empty"), K(cmd="verify", key="k1", mode=m, hash="own", exit0="no", stdout="empty"),
                      K(cmd="prove", key="k1", mode="", exit0="no", stdout="empty"),
                      K(cmd="verify", key="k1", mode=m, hash="own", exit0="no", stdout="empty"),      # `prove | verify` with a failed prove: verify's stdin is empty
                      K(cmd="gen-test-params", mode=m, dim=dim, valid=False, exit0="yes", stdout="params"), K(cmd="prove", key="k1", mode=m, exit0="no", stdout="empty"),
                      K(cmd="verify", key="k1", mode=m, hash="own", exit0="no", stdout="empty"),
                      K(cmd="blank", how="whitespace", exit0="yes", stdout="empty"), K(cmd="verify", key="k1", mode=m, hash="own", exit0="no", stdout="empty"),
                      K(cmd="damage", key="k2", how="truncated", exit0="yes", stdout="empty"), K(cmd="gen-test-params", mode=m, dim=dim, valid=True, exit0="yes", stdout="params"),
                      K(cmd="prove", key="k2", mode=m, exit0="no", stdout="empty"), K(cmd="convert-to-raw", key="k2", to="k1", exit0="no", stdout="empty"),
                      K(cmd="prove", key="k1", mode=m, exit0="yes", stdout="proof"), K(cmd="damage", key="k1", how="garbage", exit0="yes", stdout="empty"),
                      K(cmd="verify", key="k1", mode=m, hash="own", exit0="no", stdout="empty"), K(cmd="setup", key="k1", mode="", dim=dim, exit0="no", stdout="empty"),
                      K(cmd="setup", key="k2", mode="bogus", dim=dim, exit0="no", stdout="empty"), K(cmd="gen-test-params", mode="bogus", dim=dim, valid=True, exit0="no", stdout="empty")])
    fixed.append([K(cmd="export-vk", key="k1", exit0="no", stdout="empty"), K(cmd="export-solidity-stdout", key="k1", exit0="no", stdout="empty"),
                  K(cmd="import-setup", key="k1", mode=dele, have=False, exit0="no", stdout="empty"), K(cmd="import-setup", key="k1", mode="bogus", have=True, exit0="no", stdout="empty"),
                  K(cmd="import-setup", key="k1", mode="", have=True, exit0="no", stdout="empty"), K(cmd="import-setup", key="k1", mode=dele, have=True, exit0="yes", stdout="empty"),
                  K(cmd="export-vk", key="k1", exit0="yes", stdout="empty"), K(cmd="export-solidity", key="k1", exit0="yes", stdout="empty"),
                  K(cmd="export-solidity-stdout", key="k1", exit0="yes", stdout="solidity"),
                  K(cmd="gen-test-params", mode=dele, dim="A", valid=True, exit0="yes", stdout="params"), K(cmd="prove", key="k1", mode=dele, exit0="yes", stdout="proof"),
                  K(cmd="verify", key="k1", mode=dele, hash="own", exit0="yes", stdout="empty"),
                  K(cmd="r1cs", mode=dele, depth=2, exit0="yes", stdout="empty"), K(cmd="r1cs", mode=dele, depth=32, exit0="no", stdout="empty"), K(cmd="r1cs", mode=ins, depth=32, exit0="yes", stdout="empty"),
                  K(cmd="r1cs", mode="", depth=2, exit0="no", stdout="empty"), K(cmd="r1cs", mode="bogus", depth=2, exit0="no", stdout="empty"), K(cmd="r1cs", mode=dele, depth=40, exit0="no", stdout="empty"),
                  K(cmd="extract-circuit", exit0="yes", stdout="empty"),
                  K(cmd="damage", key="k1", how="truncated", exit0="yes", stdout="empty"), K(cmd="export-vk", key="k1", exit0="no", stdout="empty"),
                  K(cmd="export-solidity-stdout", key="k1", exit0="no", stdout="empty")])
    # the service in the pipeline: gen-test-params -> POST /prove of `start` -> verify; refusals to start; SIGINT exit status
    for m, o, dim in ((dele, ins, "A"), (ins, dele, "B")):
        fixed.append([K(cmd="serve", key="k1", mode=m, exit0="no", stdout="empty"),                                   # no keys file
                      K(cmd="setup", key="k1", mode=m, dim=dim, exit0="yes", stdout="empty"),
                      K(cmd="serve", key="k1", mode=m, exit0="yes", stdout="empty"),                                  # nothing to send yet
                      K(cmd="gen-test-params", mode=m, dim=dim, valid=True, exit0="yes", stdout="params"),
                      K(cmd="serve", key="k1", mode="", exit0="no", stdout="empty"), K(cmd="serve", key="k1", mode="bogus", exit0="no", stdout="empty"),
                      K(cmd="serve", key="k1", mode=m, exit0="yes", stdout="proof"), K(cmd="verify", key="k1", mode=m, hash="own", exit0="yes", stdout="empty"),
                      K(cmd="verify", key="k1", mode=m, hash="other", exit0="no", stdout="empty"),
                      K(cmd="serve", key="k1", mode=o, exit0="yes", stdout="any"),
                      K(cmd="gen-test-params", mode=m, dim=dim, valid=False, exit0="yes", stdout="params"),
                      K(cmd="serve", key="k1", mode=m, exit0="yes", stdout="error"),
                      K(cmd="convert-to-raw", key="k1", to="k2", exit0="yes", stdout="empty"), K(cmd="gen-test-params", mode=m, dim=dim, valid=True, exit0="yes", stdout="params"),
                      K(cmd="serve", key="k2", mode=m, exit0="yes", stdout="proof"), K(cmd="verify", key="k1", mode=m, hash="own", exit0="yes", stdout="empty"),
                      K(cmd="damage", key="k2", how="truncated", exit0="yes", stdout="empty"), K(cmd="serve", key="k2", mode=m, exit0="no", stdout="empty"),
                      K(cmd="damage", key="k1", how="garbage", exit0="yes", stdout="empty"), K(cmd="serve", key="k1", mode=m, exit0="no", stdout="empty")])
    # keys of an independent setup of the same dimensions must reject the proof
    fixed.append([K(cmd="setup", key="k1", mode=dele, dim="A", exit0="yes", stdout="empty"), K(cmd="setup", key="k2", mode=dele, dim="A", exit0="yes", stdout="empty"),
                  K(cmd="gen-test-params", mode=dele, dim="A", valid=True, exit0="yes", stdout="params"), K(cmd="prove", key="k1", mode=dele, exit0="yes", stdout="proof"),
                  K(cmd="verify", key="k2", mode=dele, hash="own", exit0="no", stdout="empty"), K(cmd="verify", key="k1", mode=dele, hash="own", exit0="yes", stdout="empty"),
                  K(cmd="remove", key="k1", exit0="yes", stdout="empty"), K(cmd="verify", key="k1", mode=dele, hash="own", exit0="no", stdout="empty"),
                  K(cmd="prove", key="k1", mode=dele, exit0="no", stdout="empty")])
    n = 10 if ctx.quick else 120
    r = ctx.tlc("Cli", cfg(5 if ctx.quick else 7, export=True, view=False), simulate="num=%d" % (n * 2), depth=9, workers=4, label="Cli behaviours")
    sim, seen = [], set()
    for t in r["traces"]:
        k = json.dumps(t, sort_keys=True)
        interesting = sum(1 for s in t if s["cmd"] in ("prove", "verify", "convert-to-raw", "export-vk", "export-solidity-stdout", "import-setup", "serve")) >= 2 \
            and sum(1 for s in t if s["cmd"] == "setup") <= 2 and sum(1 for s in t if s["cmd"] == "r1cs" and s["depth"] >= 31) <= 1
        if k not in seen and interesting and len(sim) < n:
            seen.add(k)
            sim.append(t)
    beh = fixed + sim
    base = ctx.scratch
    with ThreadPoolExecutor(6) as ex:
        outs = list(ex.map(lambda it: run_behaviour(cli, base, ctx.seed * 1000 + it[0], it[1]), enumerate(beh)))
    for t, o in zip(beh, outs):
        if o:
            ctx.violation("command sequence step %d: %s" % (o["step"], o["detail"]), dict(kind="c19-seq", steps=t, failed=o))
    # many independently generated proofs through the pipe (short / unusual coordinates occur by chance)
    loops = [("deletion", "A"), ("insertion", "A"), ("deletion", "B"), ("insertion", "B")] * (2 if ctx.quick else 4)
    per = 12 if ctx.quick else 60
    # valid batches of every (mode, dims) whose input hash, as the tool prints it, has an odd number of hex digits / a zero top byte / neither
    docs = {}
    for mode, dim in sorted(set(loops)):
        d, b = DIMS[dim]
        out = ctx.run_vh(["gen-params"], dict(mode=mode, depth=d, batch=b, classes=["odd-hex", "any", "zero-top-byte", "any", "odd-hex", "any"]))
        docs[(mode, dim)] = [(o["params"], o["hash"]) for o in out]
    with ThreadPoolExecutor(8) as ex:
        louts = list(ex.map(lambda it: pipe_loop(cli, base, ctx.seed * 77 + it[0], it[1][0], it[1][1], per, docs[it[1]]), enumerate(loops)))
    nshort = 0
    for (mode, dim), (bad, short) in zip(loops, louts):
        nshort += short
        for b in bad:
            ctx.violation("gen-test-params | prove | verify (%s, dims %s) iteration %d: %s" % (mode, dim, b["iteration"], b["detail"]), dict(kind="c19-pipe", mode=mode, dim=dim, failed=b))
    ctx.samples += [[(s["cmd"], s.get("mode"), s["exit0"]) for s in fixed[0][:8]]] + ([[(s["cmd"], s.get("mode"), s["exit0"]) for s in sim[0]]] if sim else [])
    ctx.traces_validated = len(beh) + len(loops) * per
    ctx.evaluations = sum(len(b) for b in beh) + len(loops) * per * 2
    ctx.cov["pipe_proofs"] = len(loops) * per
    ctx.cov["pipe_proofs_with_short_coordinate"] = nshort
    ctx.cov["rule"] = ("Cli.tla behaviours (fixed pipelines covering every command with right / wrong / missing / unknown mode, own / other / non-numeric hash, own / other / independent / "
                       "converted / damaged / absent keys, tampered proofs, unprovable parameters, plus TLC-simulated sequences) executed with the binary built from the tree; exit status, "
                       "stdout kind and stderr compared with the spec after every command; and %d independently randomised proofs through gen-test-params | prove | verify" % (len(loops) * per))


def replay(ctx, path):
    case = json.load(open(path))
    cli = ctx.build_cli()
    if case["kind"] == "c19-seq":
        o = run_behaviour(cli, ctx.scratch, ctx.seed, case["steps"])
        if o:
            print("REPRODUCED:", json.dumps(o)[:700])
        return 1 if o else 0
    # a specific proof that verify rejected
    f = case["failed"]
    print("failed:", json.dumps(f)[:900])
    d, b = DIMS[case["dim"]]
    out = ctx.run_vh(["gen-params"], dict(mode=case["mode"], depth=d, batch=b, classes=["odd-hex", "any", "zero-top-byte", "any", "odd-hex", "any"]))
    bad, _ = pipe_loop(cli, ctx.scratch, ctx.seed, case["mode"], case["dim"], 40, [(o["params"], o["hash"]) for o in out])
    for b in bad:
        print("REPRODUCED:", json.dumps(b)[:700])
    return 1 if bad else 0
