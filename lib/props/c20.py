"""C20 — request metrics account for every /prove response exactly once (DESIGN.md §5 C20)."""
import json
import srvlib
from vlib import Infra

LEVEL = "model_checking"


def run(ctx):
    ctx.assumptions += [
        "promhttp v1.14: the counter is incremented after the wrapped handler returned and the gauge is decremented by defer, so a client may hold its response before the registers move; "
        "the trace specification allows that lag and forbids overshoot, going backwards and non-convergence (10 s)",
        "method label = lower-cased standard method or 'unknown' (promhttp's sanitizeMethod)",
    ]
    kinds = ["valid", "malformed", "get", "foo"]
    mod = {"ServerRun.tla": srvlib.mc_module(kinds)}
    nc = 2 if ctx.quick else 3
    ctx.tlc("ServerRun", srvlib.cfg(nc, allow_stop=False, invariants=["TypeOK", "GaugeExact", "Monotone", "Lag", "Conservation", "Isolation"], properties=["MonotoneStep"]),
            files=mod, label="Server mc (C20, %d clients x 4 request kinds)" % nc, timeout=2400, heap="24g")
    ctx.expect_mutant_violates("ServerRun", srvlib.cfg(2, allow_stop=False, wrapped=False, invariants=["Conservation", "Lag"]), "mutant Wrapped=FALSE (handler on the bare mux)", files=mod)
    # gated replay: k requests held at TLC-chosen handler gates => the scrape must show exactly the spec's gauge and totals
    n = 36 if ctx.quick else 400
    allk = ["valid", "unsat", "malformed", "get", "put", "foo"]
    beh = srvlib.generate(ctx, allk, 2, n * 2 // 3, False, "ServerGen C20 2 clients") + srvlib.generate(ctx, allk, 3, n // 3, False, "ServerGen C20 3 clients")
    res = srvlib.replay(ctx, beh)
    diverged = 0
    held = 0
    for b, mm, case in res:
        held += sum(1 for s in b["steps"] if s["pre"]["inflight"] > 0 and s["pre"]["metricsUp"])
        bad = [m for m in mm if m["kind"] == "metrics"]
        if bad:
            ctx.violation("scrape at step %d of schedule %s differs from the spec: expected %s got %s" % (bad[0]["step"], srvlib.sched_of(b), json.dumps(bad[0].get("exp")), json.dumps(bad[0].get("got"))),
                          dict(kind="srv-replay", cases=dict(mode="deletion", depth=2, batch=1, hookKeys=srvlib.hook_keys(), behaviours=[b]), mismatches=mm))
        elif [m for m in mm if m["kind"] in ("waiting", "listener")]:
            diverged += 1
    ctx.samples.append(dict(schedule=srvlib.sched_of(beh[0]), reqs=beh[0]["reqs"], final=beh[0]["final"]))
    # un-gated sequential and concurrent mixes, scrapes during and after load; trace validated by TLC
    # in round 1 one valid request's proof takes 12 s (65 s in the thorough tier) longer, as production-size proofs do: its response still counts once and arrives
    summ, rej, nev = srvlib.load_and_validate(ctx, allk + ["huge"], 8 if ctx.quick else 60, 6 if ctx.quick else 16, scrapes=4, slow_ms=12000 if ctx.quick else 65000)
    for s in summ:
        if not s.get("metrics_ok"):
            ctx.violation("after load round %d the metrics endpoint reports %s, the responses actually received are %s%s" % (s["round"], json.dumps(s["metrics_got"]), json.dumps(s["metrics_want"]),
                                                                                                                        "; " + "; ".join(s.get("bad_responses") or [])[:400] if s.get("bad_responses") else ""),
                          dict(kind="srv-load", summary=s))
    # flood: one behaviour of Server.tla with many clients — N slow uploads inside the handler at once (gauge = N while held, 0 afterwards,
    # totals grow by exactly the responses received, every client gets its own answer), several floods on one server
    floods = [3, 70, 130] if ctx.quick else [3, 70, 130, 300, 520, 70]
    for x in ctx.run_vh(["srv-flood"], dict(mode="deletion", depth=2, batch=1, floods=floods), timeout=1200):
        if not x["ok"]:
            ctx.violation("flood of simultaneous requests: %s: %s" % (x["id"], x.get("detail")), dict(kind="srv-flood", cases=x.get("case")))
    ctx.cov["floods"] = floods
    if rej and not ctx.violations and rej["event"] and rej["event"].get("event", "").startswith("scrape"):
        ctx.violation("recorded scrape rejected by TraceServer.tla at line %d: %s" % (rej["line"], json.dumps(rej["event"])[:300]), dict(kind="srv-trace", rejection=rej))
    if beh and diverged * 2 > len(beh) and not ctx.violations:
        raise Infra("%d of %d schedules are infeasible on the real code: binding broken" % (diverged, len(beh)))
    ctx.traces_validated = len(beh) + len(summ)
    ctx.evaluations = len(beh) + len(summ)
    ctx.cov["gated_scrapes_with_requests_in_flight"] = held
    ctx.cov["load_trace_events"] = nev
    ctx.cov["rule"] = ("Server.tla registers (gauge, per (method, code) counters) are model-checked for GaugeExact / Monotone / Lag / Conservation over all interleavings; in gated "
                       "replay the real /metrics must equal the spec's registers at every settled decision point (k requests held inside the handler => gauge = k); un-gated "
                       "load with scrapes during and after is validated by TraceServer.tla")


def replay(ctx, path):
    case = json.load(open(path))
    if case["kind"] == "srv-flood":
        bad = [x for x in ctx.run_vh(["srv-flood"], case["cases"], timeout=1200) if not x["ok"]]
    elif case["kind"] == "srv-replay":
        res = ctx.run_vh(["srv-replay"], case["cases"], timeout=3000)
        bad = [x for x in res if any(m["kind"] == "metrics" for m in (x.get("observed") or []))]
    else:
        print(json.dumps(case)[:1500])
        bad = [case["kind"]]
    for x in bad:
        print("REPRODUCED:", json.dumps(x)[:800])
    return 1 if bad else 0
