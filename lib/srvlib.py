"""Shared pieces of the Server.tla-based checks (C13, C14, C20): configurations, behaviour generation, gated replay."""
import json
from vlib import Infra

RK = {
    "valid": '[method |-> "POST", body |-> "valid"]',
    "unsat": '[method |-> "POST", body |-> "unsat"]',
    "malformed": '[method |-> "POST", body |-> "malformed"]',
    "get": '[method |-> "GET", body |-> "none"]',
    "put": '[method |-> "PUT", body |-> "none"]',
    "foo": '[method |-> "FOO", body |-> "none"]',
}


def mc_module(kinds, gen=False):
    return "---- MODULE %s ----\nEXTENDS %s\nRKS == {%s}\n====\n" % ("ServerGenRun" if gen else "ServerRun", "ServerGen" if gen else "Server",
                                                                      ", ".join(RK[k] for k in kinds))


def cfg(clients, spec="Spec", wait=True, graceful=True, shared=False, wrapped=True, allow_stop=True, invariants=(), properties=(),
        maxhist=None, view=None):
    c = ["SPECIFICATION " + spec, "CONSTANTS",
         " Clients = {%s}" % ", ".join('"c%d"' % i for i in range(1, clients + 1)),
         " ReqKinds <- RKS",
         " WaitForStart = %s" % ("TRUE" if wait else "FALSE"),
         " Graceful = %s" % ("TRUE" if graceful else "FALSE"),
         " SharedParams = %s" % ("TRUE" if shared else "FALSE"),
         " Wrapped = %s" % ("TRUE" if wrapped else "FALSE"),
         " AllowStop = %s" % ("TRUE" if allow_stop else "FALSE"),
         ]
    if spec == "GenSpec":
        c.append(" MaxHist = %d" % (maxhist or 60))
    if invariants:
        c.append("INVARIANTS " + " ".join(invariants))
    if properties:
        c.append("PROPERTIES " + " ".join(properties))
    if spec != "Spec" and spec != "FairSpec":
        c.append("CHECK_DEADLOCK FALSE")
    return "\n".join(c) + "\n"


def hook_keys(nclients=4):
    keys = [["job.wake", "c"], ["job.request_stop", "m"], ["job.request_stop", "p"], ["job.closing", "c"], ["job.await_return", "c"]]
    keys += [[k, j] for k in ["job.wake", "srv.shutdown.begin", "job.closing", "srv.start.begin", "srv.start.end"] for j in "mp"]
    keys += [[k, "c%d" % c] for k in ["prove.enter", "prove.decoded", "prove.proved", "prove.respond"] for c in range(1, nclients + 1)]
    return keys


def generate(ctx, kinds, clients, n, allow_stop, label, depth=400):
    """Behaviours of ServerGen (run-to-gate semantics) by TLC simulation; de-duplicated."""
    c = cfg(clients, spec="GenSpec", allow_stop=allow_stop, invariants=["Export", "RebindOk", "ListenerReleased", "Drain", "Isolation", "GaugeExact", "Monotone"])
    r = ctx.tlc("ServerGenRun", c, files={"ServerGenRun.tla": mc_module(kinds, gen=True)}, simulate="num=%d" % max(1, n // 4), depth=depth, workers=4,
                label=label, timeout=600)
    seen, out = set(), []
    for t in r["traces"]:
        k = json.dumps(t, sort_keys=True)
        if k not in seen:
            seen.add(k)
            out.append(t)
    return out


def sched_of(t):
    return [(s["name"], s["who"]) for s in t["steps"]]


def replay(ctx, behaviours, mode="deletion", depth=2, batch=1, chunk=60):
    """Gated replay; returns list of (behaviour, mismatches, case).  If a whole first chunk of schedules is infeasible on
    the real code the rest is not replayed (each infeasible schedule costs a settle timeout) and is reported as diverged."""
    out = []
    first = 6
    for i in ([0] + list(range(first, len(behaviours), chunk))):
        part = behaviours[i:i + (first if i == 0 else chunk)]
        if not part:
            continue
        res = ctx.run_vh(["srv-replay"], dict(mode=mode, depth=depth, batch=batch, hookKeys=hook_keys(), behaviours=part), timeout=3000)
        if len(res) != len(part):
            raise Infra("srv-replay returned %d results for %d behaviours" % (len(res), len(part)))
        for b, x in zip(part, res):
            out.append((b, x.get("observed") or [], x.get("case")))
        if i == 0 and all(any(m["kind"] in ("waiting", "listener") for m in mm) for _, mm, _ in out):
            for b in behaviours[first:]:
                out.append((b, [dict(kind="waiting", step=-1, detail="not replayed: the first %d schedules were all infeasible" % first)], None))
            break
    return out
