"""Shared pieces of the Server.tla-based checks (C13, C14, C20): configurations, behaviour generation, gated replay."""
import json
from vlib import Infra

RK = {
    "valid": '[method |-> "POST", body |-> "valid"]',
    "unsat": '[method |-> "POST", body |-> "unsat"]',
    "malformed": '[method |-> "POST", body |-> "malformed"]',
    "get": '[method |-> "GET", body |-> "none"]',
    "put": '[method |-> "PUT", body |-> "none"]',
    "foo": '[method |-> "FOO", body |-> "none"]',
    "huge": '[method |-> "POST", body |-> "malformed"]',      # an over-long non-document body is a malformed body
}


def mc_module(kinds, gen=False):
    return "---- MODULE %s ----\nEXTENDS %s\nRKS == {%s}\n====\n" % ("ServerGenRun" if gen else "ServerRun", "ServerGen" if gen else "Server",
                                                                      ", ".join(RK[k] for k in kinds))


def cfg(clients, spec="Spec", wait=True, graceful=True, shared=False, wrapped=True, allow_stop=True, invariants=(), properties=(),
        maxhist=None, view=None):
    c = ["SPECIFICATION " + spec, "CONSTANTS",
         " Clients = {%s}" % ", ".join('"c%d"' % i for i in range(1, clients + 1)),
         " ReqKinds <- RKS",
         " WaitForStart = %s" % ("TRUE" if wait else "FALSE"),
         " Graceful = %s" % ("TRUE" if graceful else "FALSE"),
         " SharedParams = %s" % ("TRUE" if shared else "FALSE"),
         " Wrapped = %s" % ("TRUE" if wrapped else "FALSE"),
         " AllowStop = %s" % ("TRUE" if allow_stop else "FALSE"),
         ]
    if spec == "GenSpec":
        c.append(" MaxHist = %d" % (maxhist or 60))
    if invariants:
        c.append("INVARIANTS " + " ".join(invariants))
    if properties:
        c.append("PROPERTIES " + " ".join(properties))
    if (spec != "Spec" and spec != "FairSpec") or not allow_stop:
        c.append("CHECK_DEADLOCK FALSE")
    return "\n".join(c) + "\n"


def hook_keys(nclients=4):
    keys = [["job.wake", "c"], ["job.request_stop", "m"], ["job.request_stop", "p"], ["job.closing", "c"], ["job.await_return", "c"]]
    keys += [[k, j] for k in ["job.wake", "srv.shutdown.begin", "job.closing", "srv.start.begin", "srv.start.end"] for j in "mp"]
    keys += [[k, "c%d" % c] for k in ["prove.enter", "prove.read", "prove.decoded", "prove.proved", "prove.respond"] for c in range(1, nclients + 1)]
    return keys


def generate(ctx, kinds, clients, n, allow_stop, label, depth=400):
    """Behaviours of ServerGen (run-to-gate semantics) by TLC simulation; de-duplicated."""
    c = cfg(clients, spec="GenSpec", allow_stop=allow_stop, invariants=["Export", "RebindOk", "ListenerReleased", "Drain", "Isolation", "GaugeExact", "Monotone"])
    r = ctx.tlc("ServerGenRun", c, files={"ServerGenRun.tla": mc_module(kinds, gen=True)}, simulate="num=%d" % max(1, n // 4), depth=depth, workers=4,
                label=label, timeout=600)
    seen, out = set(), []
    for t in r["traces"]:
        k = json.dumps(t, sort_keys=True)
        if k not in seen:
            seen.add(k)
            out.append(t)
    return out


def sched_of(t):
    return [(s["name"], s["who"]) for s in t["steps"]]


def replay(ctx, behaviours, mode="deletion", depth=2, batch=1, chunk=60):
    """Gated replay; returns list of (behaviour, mismatches, case).  If a whole first chunk of schedules is infeasible on
    the real code the rest is not replayed (each infeasible schedule costs a settle timeout) and is reported as diverged."""
    out = []
    first = 6
    chunk = 12
    nbad = 0
    for i in ([0] + list(range(first, len(behaviours), chunk))):
        part = behaviours[i:i + (first if i == 0 else chunk)]
        if not part:
            continue
        res = ctx.run_vh(["srv-replay"], dict(mode=mode, depth=depth, batch=batch, hookKeys=hook_keys(), behaviours=part), timeout=3000)
        if len(res) != len(part):
            raise Infra("srv-replay returned %d results for %d behaviours" % (len(res), len(part)))
        for b, x in zip(part, res):
            mm = x.get("observed") or []
            out.append((b, mm, x.get("case")))
            if any(m["kind"] not in ("waiting", "listener") for m in mm):
                nbad += 1
        if i == 0 and all(any(m["kind"] in ("waiting", "listener") for m in mm) for _, mm, _ in out):
            for b in behaviours[first:]:
                out.append((b, [dict(kind="waiting", step=-1, detail="not replayed: the first %d schedules were all infeasible" % first)], None))
            break
        if nbad >= 3:
            # enough counterexamples: every further failing schedule costs a settle timeout
            for b in behaviours[i + len(part):]:
                out.append((b, [], None))
            break
    return out

ALL_KINDS = ["valid", "unsat", "malformed", "get", "put", "foo"]
KIND_JSON = {"valid": dict(method="POST", body="valid"), "unsat": dict(method="POST", body="unsat"), "malformed": dict(method="POST", body="malformed"),
             "get": dict(method="GET", body="none"), "put": dict(method="PUT", body="none"), "foo": dict(method="FOO", body="none"),
             "huge": dict(method="POST", body="huge")}


def load_and_validate(ctx, kinds, rounds, max_clients, scrapes=3, mode="deletion", depth=2, batch=1, race=False, slow_ms=0):
    """Un-gated concurrent load on the real server, then TLC validation of the recorded trace against TraceServer.tla.
    Returns (round summaries, rejection or None, number of events)."""
    import os, re
    tf = os.path.join(ctx.scratch, "load-%d.ndjson" % len(ctx.tlc_runs))
    summ = ctx.run_vh(["srv-load"], dict(mode=mode, depth=depth, batch=batch, rounds=rounds, maxClients=max_clients, kinds=[KIND_JSON[k] for k in kinds],
                                         traceFile=tf, scrapesPerRound=scrapes, slowMs=slow_ms), timeout=3000, race=race)
    lines = [json.loads(x) for x in open(tf)]
    files = {"TraceServerRun.tla": "---- MODULE TraceServerRun ----\nEXTENDS TraceServer\nRKS == {%s}\n====\n" % ", ".join(RK[k] for k in ALL_KINDS)}
    c = ("SPECIFICATION TraceSpec\nCONSTANTS\n Clients = {%s}\n ReqKinds <- RKS\n WaitForStart = TRUE\n Graceful = TRUE\n SharedParams = FALSE\n Wrapped = TRUE\n AllowStop = FALSE\n"
         "CONSTRAINT HighWater\nPOSTCONDITION TraceAccepted\nINVARIANTS TraceIsolation TraceGauge\nCHECK_DEADLOCK FALSE\n"
         % ", ".join('"c%d"' % i for i in range(1, max_clients + 2)))
    r = ctx.tlc("TraceServerRun", c, files=files, workers=1, dfs=True, env_extra={"TRACE_FILE": tf}, label="TraceServer (%d events)" % len(lines),
                allow_violation=True, timeout=1800)
    m = re.search(r'<<"HWM", (\d+), (\d+)>>', r["out"])
    if not m:
        raise Infra("TraceServer did not report a high-water mark:\n" + "\n".join(r["out"].splitlines()[-30:]))
    hwm, total = int(m.group(1)), int(m.group(2))
    rej = None
    if hwm != total + 1:
        inv = re.search(r"Invariant (\w+) is violated", r["out"])
        # the round the rejected line belongs to
        start = max([i for i in range(hwm) if lines[i]["event"] == "reset"] or [0])
        rej = dict(line=hwm, event=lines[hwm - 1] if hwm - 1 < len(lines) else None, invariant=inv.group(1) if inv else None, round_events=lines[start:hwm])
    elif not r["ok"]:
        raise Infra("TraceServer failed:\n" + "\n".join(r["out"].splitlines()[-30:]))
    else:
        ctx.states += r["distinct"]
        ctx.transitions += r["generated"]
    return summ, rej, len(lines)
