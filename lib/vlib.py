"""Shared driver library for the semaphore-mtb model-based checks (see DESIGN.md §3.5).

Exit codes of every check:  0 = property held on everything explored (KNOWN-FINDING lines allowed),
1 = VIOLATION (real code contradicts the spec, reproduced, not a listed finding), 2 = infrastructure
trouble (TLC error / timeout, spec self-check failed, harness build failure, driver died).
"""
import json, os, re, shutil, subprocess, sys, tempfile, threading, time, hashlib

VERIF = os.path.dirname(os.path.dirname(os.path.abspath(__file__)))
REPO = os.environ.get("VERIF_REPO", "/repo")
SPECS = os.path.join(VERIF, "specs")
HARNESS = os.path.join(VERIF, "harness")
TLA_JAR = "/opt/veriftools/tla/tla2tools.jar"
CM_JAR = "/opt/veriftools/tla/CommunityModules-deps.jar"
CLASSES = os.path.join(VERIF, "build", "classes")
NCPU = os.cpu_count() or 4

GOENV = dict(GOFLAGS="-mod=mod", GOPROXY="off", GOSUMDB="off", GOTOOLCHAIN="local")


class Infra(Exception):
    """Infrastructure trouble: never a violation."""


def log(*a):
    print(*a, flush=True)


def goenv():
    e = dict(os.environ)
    e.update(GOENV)
    return e


def ensure_classes():
    src = os.path.join(SPECS, "BigField.java")
    cls = os.path.join(CLASSES, "BigField.class")
    if not os.path.exists(cls) or os.path.getmtime(cls) < os.path.getmtime(src):
        os.makedirs(CLASSES, exist_ok=True)
        r = subprocess.run(["javac", "-cp", TLA_JAR, "-d", CLASSES, src], capture_output=True, text=True)
        if r.returncode != 0:
            raise Infra("javac BigField.java failed: " + r.stderr)


class Ctx:
    def __init__(self, pid, tier, seed, level):
        self.pid, self.tier, self.seed, self.level = pid, tier, seed, level
        self.t0 = time.time()
        self.scratch = tempfile.mkdtemp(prefix="verif-%s-" % pid, dir=os.environ.get("VERIF_TMP", "/tmp"))
        self.states = 0
        self.transitions = 0
        self.tlc_runs = []
        self.vh = None
        self.violations = []      # list of dict(what=..., replay=path)
        self.known_hits = []
        self.cov = {}
        self.assumptions = []
        self.samples = []
        self.traces_validated = 0
        self.evaluations = 0
        self.quick = tier == "quick"
        self._build_lock = threading.Lock()

    # ------------------------------------------------------------------ TLC
    def tlc(self, module, cfg, workers=None, timeout=600, simulate=None, depth=None, extra=None,
            dfs=False, env_extra=None, label=None, allow_violation=False, files=None, heap=None):
        """Run TLC on specs/<module>.tla with the given cfg text in a fresh sub-directory.
        Returns dict(out, generated, distinct, traces, ok, violated)."""
        ensure_classes()
        d = tempfile.mkdtemp(prefix="tlc-", dir=self.scratch)
        for f in os.listdir(SPECS):
            if f.endswith(".tla"):
                shutil.copy(os.path.join(SPECS, f), d)
        for name, text in (files or {}).items():
            with open(os.path.join(d, name), "w") as fh:
                fh.write(text)
        with open(os.path.join(d, "run.cfg"), "w") as fh:
            fh.write(cfg)
        cmd = ["java", "-XX:+UseParallelGC", "-Xss256m"]
        if heap:
            cmd.append("-Xmx" + heap)
        if dfs:
            cmd.append("-Dtlc2.tool.queue.IStateQueue=StateDeque")
        cmd += ["-cp", ":".join([TLA_JAR, CM_JAR, CLASSES]), "tlc2.TLC", "-config", "run.cfg",
                "-metadir", os.path.join(d, "md"), "-workers", str(workers or (1 if dfs else NCPU)), "-noGenerateSpecTE"]
        if simulate:
            cmd += ["-simulate", simulate]
        if depth:
            cmd += ["-depth", str(depth)]
        if simulate:
            cmd += ["-seed", str(self.seed)]
        cmd += (extra or []) + [module]
        env = dict(os.environ)
        env.update(env_extra or {})
        t = time.time()
        try:
            r = subprocess.run(cmd, cwd=d, capture_output=True, text=True, timeout=timeout, env=env)
        except subprocess.TimeoutExpired as e:
            subprocess.run(["pkill", "-f", d], capture_output=True)
            raise Infra("TLC timeout (%ss) on %s" % (timeout, label or module))
        out = r.stdout + r.stderr
        gen = dist = 0
        m = None
        for m in re.finditer(r"(\d+) states generated, (\d+) distinct states found", out):
            pass
        if m:
            gen, dist = int(m.group(1)), int(m.group(2))
        else:
            m = None
            for m in re.finditer(r"The number of states generated: (\d+)", out):
                pass
            if m:
                gen = dist = int(m.group(1))
        traces = []
        for line in out.splitlines():
            if line.startswith('"TRACE '):
                try:
                    sline = json.loads(line)
                    traces.append(json.loads(sline[len("TRACE "):]))
                except Exception as ex:
                    raise Infra("cannot decode TRACE line: %r (%s)" % (line[:200], ex))
        violated = bool(re.search(r"Error: Invariant .* is violated|Error: Action property .* is violated|"
                                  r"Error: Temporal properties were violated|is violated by the initial state|"
                                  r"Error: Deadlock reached|The first argument of Assert evaluated to FALSE", out))
        err = ("Error:" in out) and not violated
        ok = (r.returncode == 0) and not violated and not err
        res = dict(out=out, generated=gen, distinct=dist, traces=traces, ok=ok, violated=violated, rc=r.returncode,
                   dir=d, wall=time.time() - t)
        self.tlc_runs.append(dict(module=module, label=label or module, generated=gen, distinct=dist,
                                  traces=len(traces), wall_s=round(time.time() - t, 2), ok=ok))
        if os.environ.get("VERIF_VERBOSE"):
            log("  tlc %-60s gen=%d distinct=%d traces=%d %.1fs ok=%s" % (label or module, gen, dist, len(traces), time.time() - t, ok))
        if not allow_violation:
            if not ok:
                tail = "\n".join(out.splitlines()[-40:])
                raise Infra("TLC failed on %s (rc=%s):\n%s" % (label or module, r.returncode, tail))
            self.states += dist
            self.transitions += gen
        return res

    def expect_mutant_violates(self, module, cfg, label, **kw):
        """Non-vacuity: a mutant configuration of the spec must violate its invariant."""
        r = self.tlc(module, cfg, allow_violation=True, label=label, **kw)
        if not r["violated"]:
            raise Infra("spec mutant %s was NOT refuted by TLC — the invariant is vacuous or the mutant is wrong:\n%s"
                        % (label, "\n".join(r["out"].splitlines()[-25:])))
        return r

    # -------------------------------------------------------------- harness
    def build_harness(self, race=False, tags=()):
        """tags: optional gadget-level drivers (g_keccak, g_poseidon, g_bits, g_merkle) that depend on the internal gadget structs;
        they are compiled only into the binaries of the checks that need them, so that a refactoring of one gadget's API cannot
        take down the harness of unrelated checks."""
        with self._build_lock:
            return self._build_harness(race, tuple(tags))

    def _build_harness(self, race=False, tags=()):
        key = ("vh-race" if race else "vh") + "".join("-" + t for t in tags)
        out = os.path.join(self.scratch, key)
        if os.path.exists(out):
            return out
        # go.sum: the harness resolves the same dependency graph as /repo
        rs, hs = os.path.join(REPO, "go.sum"), os.path.join(HARNESS, "go.sum")
        try:
            have = set(open(hs).read().splitlines()) if os.path.exists(hs) else set()
            need = set(open(rs).read().splitlines())
            if not need <= have:
                with open(hs, "w") as fh:
                    fh.write("\n".join(sorted(have | need)) + "\n")
        except OSError:
            pass
        cmd = ["go", "build", "-tags", ",".join(("verif",) + tuple(tags))] + (["-race"] if race else []) + ["-o", out, "./cmd/vh"]
        env = goenv()
        if race:
            env["CGO_ENABLED"] = "1"
        hdir = HARNESS
        if REPO != "/repo":
            # seed-matrix runs: the same harness against a scratch worktree of the repository
            hdir = os.path.join(self.scratch, "harness-copy")
            if not os.path.exists(hdir):
                shutil.copytree(HARNESS, hdir)
                gm = open(os.path.join(hdir, "go.mod")).read().replace("=> /repo", "=> " + REPO)
                open(os.path.join(hdir, "go.mod"), "w").write(gm)
        r = subprocess.run(cmd, cwd=hdir, capture_output=True, text=True, env=env)
        if r.returncode != 0:
            # A tree that does not compile cannot be checked: infrastructure, not a violation.
            raise Infra("harness build failed:\n" + r.stdout + r.stderr)
        self.vh = out
        return out

    def build_cli(self, tags="verif"):
        with self._build_lock:
            return self._build_cli(tags)

    def _build_cli(self, tags="verif"):
        out = os.path.join(self.scratch, "gnark-mbu")
        if os.path.exists(out):
            return out
        cmd = ["go", "build"] + (["-tags", tags] if tags else []) + ["-o", out, "."]
        r = subprocess.run(cmd, cwd=REPO, capture_output=True, text=True, env=goenv())
        if r.returncode != 0:
            raise Infra("gnark-mbu build failed:\n" + r.stdout + r.stderr)
        return out

    def run_vh(self, args, cases=None, timeout=1800, env_extra=None, race=False, allow_crash=False, tags=()):
        """Run a harness sub-command; `cases` (any JSON value) is passed as a file. Returns parsed
        JSON lines written by the harness on stdout (lines starting with '{')."""
        vh = self.build_harness(race=race, tags=tags)
        cmd = [vh] + list(args)
        if cases is not None:
            p = tempfile.mktemp(prefix="cases-", suffix=".json", dir=self.scratch)
            with open(p, "w") as fh:
                json.dump(cases, fh)
            cmd += ["--cases", p]
        env = goenv()
        env["VERIF_SEED"] = str(self.seed)
        env["VERIF_TIER"] = self.tier
        env["VERIF_SCRATCH"] = self.scratch
        env.update(env_extra or {})
        try:
            r = subprocess.run(cmd, capture_output=True, text=True, timeout=timeout, env=env, cwd=self.scratch)
        except subprocess.TimeoutExpired:
            raise Infra("harness timeout: " + " ".join(args))
        res = []
        for line in r.stdout.splitlines():
            if line.startswith("{"):
                try:
                    res.append(json.loads(line))
                except Exception:
                    pass
        if allow_crash:
            return dict(results=res, rc=r.returncode, tail="\n".join((r.stdout + r.stderr).splitlines()[-60:]), stdout=r.stdout)
        if r.returncode != 0:
            raise Infra("harness %s died rc=%s:\n%s" % (" ".join(args), r.returncode,
                                                       "\n".join((r.stdout + r.stderr).splitlines()[-40:])))
        return res

    # ------------------------------------------------------------- verdicts
    def violation(self, what, case):
        """Record a violation: `case` is the replay document (kind + concrete input + expected/observed)."""
        kf = load_known()
        key = case.get("finding_key")
        for f in kf.get("findings", []):
            if f.get("property") == self.pid and f.get("status") == "known" and key and f.get("key") == key:
                self.known_hits.append((f, what))
                return
        rdir = os.path.join(os.environ.get("VERIF_EVIDENCE_DIR", os.path.join(VERIF, "evidence")), "replays")
        os.makedirs(rdir, exist_ok=True)
        h = hashlib.sha1(json.dumps(case, sort_keys=True).encode()).hexdigest()[:10]
        path = os.path.join(rdir, "%s-%s.json" % (self.pid, h))
        case = dict(case)
        case["property"] = self.pid
        case["what"] = what
        with open(path, "w") as fh:
            json.dump(case, fh, indent=1)
        self.violations.append(dict(what=what, replay=path))

    def finish(self, explanation=None):
        wall = time.time() - self.t0
        cov = dict(self.cov)
        cov.setdefault("states", self.states)
        cov.setdefault("transitions", self.transitions)
        cov.setdefault("traces_validated_against_impl", self.traces_validated)
        cov.setdefault("evaluations", self.evaluations)
        cov.setdefault("samples", self.samples[:6] if self.samples else [])
        cov["tlc_runs"] = self.tlc_runs
        if explanation:
            cov["explanation"] = explanation
        ev = dict(property_id=self.pid, tier=self.tier, seed=self.seed, level=self.level, coverage=cov,
                  assumptions=self.assumptions, wall_s=round(wall, 2), violations=len(self.violations))
        evdir = os.environ.get("VERIF_EVIDENCE_DIR", os.path.join(VERIF, "evidence"))
        os.makedirs(evdir, exist_ok=True)
        with open(os.path.join(evdir, self.pid + ".json"), "w") as fh:
            json.dump(ev, fh, indent=1)
        seen = set()
        for f, what in self.known_hits:
            if f["key"] not in seen:
                seen.add(f["key"])
                log("KNOWN-FINDING: property=%s %s" % (self.pid, f.get("what", what)))
        for v in self.violations[:20]:
            log("VIOLATION property=%s replay=%s" % (self.pid, v["replay"]))
            log("  " + v["what"][:600])
        log("%s %s tier=%s seed=%s states=%d transitions=%d impl_cases=%d wall=%.1fs" % (
            self.pid, "FAIL" if self.violations else "ok", self.tier, self.seed, cov["states"], cov["transitions"],
            cov["traces_validated_against_impl"], wall))
        self.cleanup()
        return 1 if self.violations else 0

    def cleanup(self):
        shutil.rmtree(self.scratch, ignore_errors=True)


def load_known():
    p = os.path.join(VERIF, "known-findings.json")
    if os.path.exists(p):
        return json.load(open(p))
    return {}


def rng(seed, salt=""):
    import random
    return random.Random("%s/%s" % (seed, salt))
