---- MODULE Artifacts ----
(***************************************************************************)
(* Monitor for build artefacts (C12, C17).  The system is the set of code  *)
(* paths that instantiate and compile the circuits:                        *)
(*    build(path, mode, depth, batch) with path in                         *)
(*        "r1cs"   BuildR1CSInsertion / BuildR1CSDeletion                  *)
(*        "setup"  SetupInsertion / SetupDeletion (the system's cs)        *)
(*        "import" ImportInsertionSetup / ImportDeletionSetup              *)
(*        "cli"    `gnark-mbu r1cs` output file                            *)
(*    extract(depth, batch)  ExtractLean / `gnark-mbu extract-circuit`     *)
(* each run in a FRESH process under some GOMAXPROCS, and the artefacts    *)
(* committed in the repository (the Lean model and the identifiers the     *)
(* proof files refer to).  State = a registry of digests; every recorded   *)
(* event must be a step that keeps the registry FUNCTIONAL:                *)
(*   same (mode, depth, batch) => same constraint-system digest, whatever  *)
(*   the path, process or scheduling; exactly one public input; deletion   *)
(*   deeper than 31 refused, everything else built;                        *)
(*   same (depth, batch) => same extraction, definition by definition,     *)
(*   and the extraction is a complete model at every dimension;            *)
(*   the committed model = extraction at (30, 4); every referenced         *)
(*   definition exists in the committed model.                             *)
(* Plan (below) derives which executions a run performs.                   *)
(***************************************************************************)
EXTENDS Naturals, Sequences, FiniteSets, TLC, Json, IOUtils
CONSTANTS Dims,      \* set of <<mode, depth, batch>> to build
          Paths, Procs, Reps,
          ExtractDims \* set of <<depth, batch>> to extract

Plan == [builds   |-> {[mode |-> d[1], depth |-> d[2], batch |-> d[3], path |-> p, procs |-> n, rep |-> r] : d \in Dims, p \in Paths, n \in Procs, r \in 1..Reps},
         extracts |-> {[depth |-> d[1], batch |-> d[2], procs |-> n, rep |-> r] : d \in ExtractDims, n \in Procs, r \in 1..Reps}]

Trace == ndJsonDeserialize(IOEnv.TRACE_FILE)
VARIABLES l, cs, ex, committed, refs
vars == <<l, cs, ex, committed, refs>>
None == [whole |-> "none"]
Init == l = 1 /\ cs = <<>> /\ ex = <<>> /\ committed = None /\ refs = {} /\ TLCSet(1, 1)
Ev == Trace[l]
Put(f, k, v) == IF k \in DOMAIN f THEN f ELSE f @@ (k :> v)
Refused(e) == e.mode = "deletion" /\ e.depth > 31

Build == /\ l <= Len(Trace) /\ Ev.event = "build" /\ l' = l + 1
         /\ LET k == <<Ev.mode, Ev.depth, Ev.batch>> IN
              IF Ev.err # ""
              THEN Refused(Ev) /\ UNCHANGED cs                          \* the only build that may fail is the refused one
              ELSE /\ ~Refused(Ev)                                      \* DepthGuard
                   /\ Ev.nbPublic = 1                                   \* OnePublic
                   /\ (k \in DOMAIN cs => cs[k] = Ev.digest)            \* Functional
                   /\ cs' = Put(cs, k, Ev.digest)
         /\ UNCHANGED <<ex, committed, refs>>
Extract == /\ l <= Len(Trace) /\ Ev.event = "extract" /\ l' = l + 1
           /\ Ev.err = ""                                               \* SweepOk
           \* SweepComplete: a successful extraction is a whole model - the namespace is closed, both top-level circuits are defined,
           \* and every gadget the text uses is defined in it (a silently truncated or partial file is not a success)
           /\ Ev.shape.closed /\ Ev.shape.mains = <<"DeletionMbuCircuit", "InsertionMbuCircuit">> /\ Ev.shape.dangling = 0
           /\ LET k == <<Ev.depth, Ev.batch>> IN
                /\ (k \in DOMAIN ex => ex[k].whole = Ev.whole /\ ex[k].defs = Ev.defs)   \* ExtractFunctional
                /\ ex' = Put(ex, k, [whole |-> Ev.whole, defs |-> Ev.defs])
           /\ UNCHANGED <<cs, committed, refs>>
Committed == /\ l <= Len(Trace) /\ Ev.event = "committed" /\ l' = l + 1
             /\ committed' = [whole |-> Ev.whole, defs |-> Ev.defs] /\ refs' = {Ev.refs[i] : i \in 1..Len(Ev.refs)}
             /\ UNCHANGED <<cs, ex>>
\* closing event: the comparisons that need the whole history
End == /\ l <= Len(Trace) /\ Ev.event = "end" /\ l' = l + 1
       /\ committed # None /\ <<30, 4>> \in DOMAIN ex
       /\ ex[<<30, 4>>].defs = committed.defs /\ ex[<<30, 4>>].whole = committed.whole        \* CommittedIsCurrent
       /\ refs \subseteq DOMAIN committed.defs                                                  \* RefsResolve
       /\ UNCHANGED <<cs, ex, committed, refs>>
\* `gnark-mbu export-solidity`: the verifier contract takes exactly one public input (uint256[1] calldata input)
Solidity == /\ l <= Len(Trace) /\ Ev.event = "solidity" /\ l' = l + 1
            /\ Ev.err = "" /\ Ev.inputs = 1
            /\ UNCHANGED <<cs, ex, committed, refs>>
Next == Build \/ Extract \/ Committed \/ Solidity \/ End
Spec == Init /\ [][Next]_vars
HighWater == TLCSet(1, IF l > TLCGet(1) THEN l ELSE TLCGet(1))
TraceAccepted == PrintT(<<"HWM", TLCGet(1), Len(Trace)>>) /\ TLCGet(1) = Len(Trace) + 1
ExportPlan == l = 1 => PrintT("TRACE " \o ToJson([builds |-> Plan.builds, extracts |-> Plan.extracts]))
====
