import java.math.BigInteger;
import tlc2.value.impl.BoolValue;
import tlc2.value.impl.IntValue;
import tlc2.value.impl.StringValue;
import tlc2.value.impl.TupleValue;
import tlc2.value.impl.Value;

// TLC module override for BigField.tla: class named like the module, static methods named
// like the operators.  Naturals are decimal strings.
public class BigField {
    private static BigInteger b(Value v) {
        if (v instanceof IntValue) return BigInteger.valueOf(((IntValue) v).val);
        return new BigInteger(((StringValue) v).getVal().toString());
    }
    private static Value s(BigInteger x) { return new StringValue(x.toString()); }
    public static Value FAdd(Value a, Value x, Value p) { return s(b(a).add(b(x)).mod(b(p))); }
    public static Value FSub(Value a, Value x, Value p) { return s(b(a).subtract(b(x)).mod(b(p))); }
    public static Value FMul(Value a, Value x, Value p) { return s(b(a).multiply(b(x)).mod(b(p))); }
    public static Value FInv(Value a, Value p) {
        BigInteger P = b(p), A = b(a).mod(P);
        return s(A.signum() == 0 ? BigInteger.ZERO : A.modPow(P.subtract(BigInteger.TWO), P));
    }
    public static Value FMod(Value a, Value p) { return s(b(a).mod(b(p))); }
    public static Value FLess(Value a, Value x) { return b(a).compareTo(b(x)) < 0 ? BoolValue.ValTrue : BoolValue.ValFalse; }
    public static Value NAdd(Value a, Value x) { return s(b(a).add(b(x))); }
    public static Value NMul(Value a, Value x) { return s(b(a).multiply(b(x))); }
    public static Value NPow2(Value k) { return s(BigInteger.ONE.shiftLeft(((IntValue) k).val)); }
    public static Value NBitsLE(Value a, Value n) {
        BigInteger A = b(a);
        int N = ((IntValue) n).val;
        Value[] out = new Value[N];
        for (int i = 0; i < N; i++) out[i] = IntValue.gen(A.testBit(i) ? 1 : 0);
        return new TupleValue(out);
    }
    public static Value NFromBitsLE(Value bits) {
        TupleValue t = (TupleValue) bits.toTuple();
        BigInteger r = BigInteger.ZERO;
        for (int i = 0; i < t.elems.length; i++)
            if (((IntValue) t.elems[i]).val != 0) r = r.setBit(i);
        return s(r);
    }
    public static Value NBitLen(Value a) { return IntValue.gen(b(a).bitLength()); }
    public static Value NHex(Value a) { return new StringValue("0x" + b(a).toString(16)); }
    public static Value NOfInt(Value i) { return s(b(i)); }
    public static Value NFromHex(Value h) { return s(new BigInteger(((StringValue) h).getVal().toString().substring(2), 16)); }
    public static Value NToInt(Value a) { return IntValue.gen(b(a).intValueExact()); }
    public static Value NByteLen(Value a) { return IntValue.gen((b(a).bitLength() + 7) / 8); }
}
