---- MODULE BigField ----
(***************************************************************************)
(* Arbitrary-precision naturals as decimal STRINGS.  TLC integers are      *)
(* 32-bit, so BN254 scalars (254 bits) cannot be TLC integers; the         *)
(* operators below are overridden by BigField.java (java.math.BigInteger). *)
(* The TLA+ bodies are placeholders that TLC never evaluates; the override *)
(* is cross-validated against native TLC integers on small moduli by       *)
(* BigFieldCheck.tla (run by every check that uses this module).           *)
(***************************************************************************)
LOCAL INSTANCE Naturals
LOCAL INSTANCE Sequences
FAdd(a, b, p) == CHOOSE x \in STRING : TRUE      \* (a + b) mod p
FSub(a, b, p) == CHOOSE x \in STRING : TRUE      \* (a - b) mod p, in [0, p)
FMul(a, b, p) == CHOOSE x \in STRING : TRUE      \* (a * b) mod p
FInv(a, p)    == CHOOSE x \in STRING : TRUE      \* a^(p-2) mod p (0 for a = 0)
FMod(a, p)    == CHOOSE x \in STRING : TRUE      \* a mod p
FLess(a, b)   == CHOOSE x \in BOOLEAN : TRUE     \* a < b as naturals
NAdd(a, b)    == CHOOSE x \in STRING : TRUE      \* a + b (no reduction)
NMul(a, b)    == CHOOSE x \in STRING : TRUE      \* a * b (no reduction)
NPow2(k)      == CHOOSE x \in STRING : TRUE      \* 2^k
NBitsLE(a, n) == CHOOSE x \in Seq({0, 1}) : TRUE \* the n low bits of a, least significant first
NFromBitsLE(bits) == CHOOSE x \in STRING : TRUE  \* the natural denoted by a 0/1 sequence, LSB first
NBitLen(a)    == CHOOSE x \in Nat : TRUE         \* bit length (0 for 0)
NHex(a)       == CHOOSE x \in STRING : TRUE      \* "0x" + minimal lower-case hex ("0x0" for 0)
NOfInt(i)     == CHOOSE x \in STRING : TRUE      \* decimal string of a TLC integer
NFromHex(h)   == CHOOSE x \in STRING : TRUE      \* natural denoted by "0x..." (any case)
NToInt(a)     == CHOOSE x \in Nat : TRUE         \* TLC integer of a small natural (< 2^31)
NByteLen(a)   == CHOOSE x \in Nat : TRUE         \* length of the minimal big-endian byte string (0 for 0)
====
