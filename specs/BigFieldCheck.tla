---- MODULE BigFieldCheck ----
(* Cross-validation of the BigField Java override against native TLC integer arithmetic on   *)
(* every pair of residues of a few small primes, and of the bit/hex helpers on small values. *)
EXTENDS Naturals, Sequences, BigField, TLC
Primes == {2, 3, 7, 13, 47, 251}
S(i) == NOfInt(i)
RECURSIVE PowMod(_, _, _)
PowMod(a, e, p) == IF e = 0 THEN 1 % p ELSE (a * PowMod(a, e - 1, p)) % p
ASSUME \A p \in Primes : \A a, b \in 0..(p-1) :
          /\ NToInt(FAdd(S(a), S(b), S(p))) = (a + b) % p
          /\ NToInt(FSub(S(a), S(b), S(p))) = (a + p - b) % p
          /\ NToInt(FMul(S(a), S(b), S(p))) = (a * b) % p
          /\ FLess(S(a), S(b)) = (a < b)
ASSUME \A p \in {3, 7, 13, 47} : \A a \in 1..(p-1) : (NToInt(FInv(S(a), S(p))) * a) % p = 1
ASSUME \A p \in Primes : FInv("0", S(p)) = "0"
ASSUME \A a \in 0..300 : /\ NToInt(NFromBitsLE(NBitsLE(S(a), 9))) = a
                         /\ NBitsLE(S(a), 9) = [i \in 1..9 |-> (a \div (2^(i-1))) % 2]
                         /\ NToInt(FMod(S(a), "7")) = a % 7
ASSUME NHex("255") = "0xff" /\ NHex("0") = "0x0" /\ NHex("4096") = "0x1000"
ASSUME NPow2(10) = "1024" /\ NAdd("999", "1") = "1000" /\ NMul("1000", "1000") = "1000000"
ASSUME NBitLen("0") = 0 /\ NBitLen("255") = 8 /\ NBitLen("256") = 9 /\ NByteLen("255") = 1 /\ NByteLen("256") = 2 /\ NByteLen("0") = 0
\* wrap-around beyond 32 bits, where TLC integers cannot follow
ASSUME FAdd("21888242871839275222246405745257275088548364400416034343698204186575808495616", "2",
            "21888242871839275222246405745257275088548364400416034343698204186575808495617") = "1"
ASSUME FMul("21888242871839275222246405745257275088548364400416034343698204186575808495616", "2",
            "21888242871839275222246405745257275088548364400416034343698204186575808495617")
        = "21888242871839275222246405745257275088548364400416034343698204186575808495615"
VARIABLE x
Init == x = 0
Next == UNCHANGED x
====
