---- MODULE Cli ----
(***************************************************************************)
(* The command-line pipeline of gnark-mbu (main.go) as a machine over a    *)
(* small file system: keys files, one parameter file, one proof file.      *)
(* Each action is one command invocation; the spec states its effect on    *)
(* the files, what it writes on standard output and its exit status:       *)
(*    exit 0  <=>  the command's result is right                           *)
(* in particular  verify exits 0 <=> the proof it reads was made with the  *)
(* given keys for a batch whose input hash is the supplied one (the keys   *)
(* file does not record the mode, so a --mode naming the other KNOWN mode  *)
(* does not change verify's verdict), prove writes exactly one JSON proof  *)
(* on stdout and nothing else, and an unknown or missing mode, unreadable  *)
(* keys or unprovable parameters always end in a non-zero exit.            *)
(***************************************************************************)
EXTENDS Naturals, Sequences, FiniteSets, TLC, Json
CONSTANTS KeyFiles,     \* names of keys-file slots
          Dims,         \* set of dimension ids (strings), each mode supports each
          MaxSteps

Modes == {"insertion", "deletion"}
BadModes == {"", "bogus"}           \* missing flag, unknown value
Absent == [kind |-> "absent"]
VARIABLES keys,      \* [KeyFiles -> [kind: absent | garbage | truncated | keys, mode, dim, id]]
          params,    \* [kind: absent | params, mode, dim, batch, valid]
          proof,     \* [kind: absent | proof | tampered, keyid, batch]
          nid, hist
vars == <<keys, params, proof, nid, hist>>
Init == /\ keys = [k \in KeyFiles |-> Absent] /\ params = Absent /\ proof = Absent /\ nid = 0 /\ hist = <<>>

YN(b) == IF b THEN "yes" ELSE "no"
\* exit0: "yes" | "no" | "any" (outcome left open)
Step(cmd, exit0, out) == hist' = Append(hist, cmd @@ [exit0 |-> exit0, stdout |-> out])
Bound == Len(hist) < MaxSteps

Setup(k, m, d) == /\ Bound /\ nid' = nid + 1
                  /\ IF m \in Modes
                       THEN keys' = [keys EXCEPT ![k] = [kind |-> "keys", mode |-> m, dim |-> d, id |-> nid + 1]]
                       ELSE UNCHANGED keys
                  /\ UNCHANGED <<params, proof>>
                  /\ Step([cmd |-> "setup", key |-> k, mode |-> m, dim |-> d], YN(m \in Modes), "empty")
\* files damaged outside the tool: interrupted copy, wrong file
Damage(k, how) == /\ Bound /\ keys[k].kind = "keys" /\ how \in {"garbage", "truncated"}
                  /\ keys' = [keys EXCEPT ![k] = [kind |-> how]] /\ UNCHANGED <<params, proof, nid>>
                  /\ Step([cmd |-> "damage", key |-> k, how |-> how], "yes", "empty")
Remove(k) == /\ Bound /\ keys[k].kind # "absent" /\ keys' = [keys EXCEPT ![k] = Absent] /\ UNCHANGED <<params, proof, nid>>
             /\ Step([cmd |-> "remove", key |-> k], "yes", "empty")
GenParams(m, d, valid) == /\ Bound /\ nid' = nid + 1
                          /\ IF m \in Modes THEN params' = [kind |-> "params", mode |-> m, dim |-> d, batch |-> nid + 1, valid |-> valid] ELSE params' = Absent
                          /\ UNCHANGED <<keys, proof>>
                          /\ Step([cmd |-> "gen-test-params", mode |-> m, dim |-> d, valid |-> valid], YN(m \in Modes), IF m \in Modes THEN "params" ELSE "empty")
\* prove --mode m --keys-file k < params > proof
Prove(k, m) == /\ Bound
               /\ LET ok == /\ m \in Modes /\ keys[k].kind = "keys" /\ keys[k].mode = m
                            /\ params.kind = "params" /\ params.mode = m /\ params.dim = keys[k].dim /\ params.valid
                      \* the keys file does not record its mode: with keys of the OTHER known mode the parameters are parsed under the
                      \* wrong shape, and whether that happens to describe a provable batch is not determined at this level
                      open == m \in Modes /\ keys[k].kind = "keys" /\ keys[k].mode # m /\ params.kind = "params"
                  IN IF open
                     THEN /\ proof' = [kind |-> "unknown"]
                          /\ Step([cmd |-> "prove", key |-> k, mode |-> m], "any", "any")
                     ELSE /\ proof' = (IF ok THEN [kind |-> "proof", keyid |-> keys[k].id, batch |-> params.batch] ELSE Absent)   \* the pipe target is overwritten either way
                          /\ Step([cmd |-> "prove", key |-> k, mode |-> m], YN(ok), IF ok THEN "proof" ELSE "empty")
               /\ UNCHANGED <<keys, params, nid>>
Tamper == /\ Bound /\ proof.kind \in {"proof"} /\ proof' = [kind |-> "tampered"] /\ UNCHANGED <<keys, params, nid>>
          /\ Step([cmd |-> "tamper"], "yes", "empty")
\* the proof file emptied outside the tool (`: > proof`, a failed redirection): nothing, or only white space, reaches verify's stdin
Blank(how) == /\ Bound /\ how \in {"empty", "whitespace"} /\ proof' = [kind |-> "blank"] /\ UNCHANGED <<keys, params, nid>>
              /\ Step([cmd |-> "blank", how |-> how], "yes", "empty")
\* verify --mode m --keys-file k --input-hash h < proof;  h: "own" = the hash of the batch the proof was made for, "other", "junk" (not a number)
Verify(k, m, h) == /\ Bound
                   /\ LET ok == /\ m \in Modes /\ keys[k].kind = "keys" /\ proof.kind = "proof" /\ proof.keyid = keys[k].id
                                /\ h = "own"
                      IN Step([cmd |-> "verify", key |-> k, mode |-> m, hash |-> h], IF proof.kind = "unknown" /\ m \in Modes THEN "any" ELSE YN(ok), "empty")
                   /\ UNCHANGED <<keys, params, proof, nid>>
Convert(k, k2) == /\ Bound /\ k # k2
                  /\ IF keys[k].kind = "keys" THEN keys' = [keys EXCEPT ![k2] = keys[k]] ELSE UNCHANGED keys
                  /\ UNCHANGED <<params, proof, nid>>
                  /\ Step([cmd |-> "convert-to-raw", key |-> k, to |-> k2], YN(keys[k].kind = "keys"), "empty")

(* ---- the remaining commands: they read a keys file or compile a circuit and write an artefact; none of them changes the slots ---- *)
\* export-vk / export-solidity --keys-file k: succeed iff the keys file loads
Export_(k, what) == /\ Bound /\ what \in {"export-vk", "export-solidity", "export-solidity-stdout"}
                    /\ UNCHANGED <<keys, params, proof, nid>>
                    /\ Step([cmd |-> what, key |-> k], YN(keys[k].kind = "keys"),
                            IF what = "export-solidity-stdout" /\ keys[k].kind = "keys" THEN "solidity" ELSE "empty")
\* r1cs --mode m --tree-depth d: succeeds iff the mode is known and the circuit exists (deletion deeper than 31 is refused)
R1cs(m, depth) == /\ Bound /\ depth \in {2, 31, 32, 40}
                  /\ UNCHANGED <<keys, params, proof, nid>>
                  /\ Step([cmd |-> "r1cs", mode |-> m, depth |-> depth], YN(m \in Modes /\ (m = "deletion" => depth <= 31)), "empty")
\* import-setup --mode m --pk P --vk V: needs readable key files and a known mode
ImportSetup(k, m, have) == /\ Bound /\ have \in BOOLEAN
                           /\ UNCHANGED <<params, proof>> /\ nid' = nid + 1
                           /\ IF m \in Modes /\ have THEN keys' = [keys EXCEPT ![k] = [kind |-> "keys", mode |-> m, dim |-> "A", id |-> nid + 1]] ELSE UNCHANGED keys
                           /\ Step([cmd |-> "import-setup", key |-> k, mode |-> m, have |-> have], YN(m \in Modes /\ have), "empty")
\* start --mode m --keys-file k, then (once both listeners answer) POST the parameter file to /prove and write a 200 body to the proof
\* file, then SIGINT.  The service comes up iff the mode is known and the keys file loads; otherwise the command ends by itself with a
\* non-zero status and never listens.  After SIGINT a service that came up exits 0.  The answer to the POST is the one `prove` would give:
\* "proof" (200, a proof that `verify` accepts for the batch's hash), "error" (400), "any" with keys of the other known mode.
Serve(k, m) == /\ Bound
               /\ LET up   == m \in Modes /\ keys[k].kind = "keys"
                      ok   == /\ up /\ keys[k].mode = m
                              /\ params.kind = "params" /\ params.mode = m /\ params.dim = keys[k].dim /\ params.valid
                      open == up /\ keys[k].mode # m /\ params.kind = "params"
                      ans  == IF ~up \/ params.kind # "params" THEN "empty" ELSE IF open THEN "any" ELSE IF ok THEN "proof" ELSE "error"
                  IN /\ proof' = (IF ans = "proof" THEN [kind |-> "proof", keyid |-> keys[k].id, batch |-> params.batch]
                                  ELSE IF ans = "any" THEN [kind |-> "unknown"] ELSE proof)      \* only a 200 body is written to the proof file
                     /\ Step([cmd |-> "serve", key |-> k, mode |-> m], YN(up), ans)
               /\ UNCHANGED <<keys, params, nid>>
ExtractCircuit == /\ Bound /\ UNCHANGED <<keys, params, proof, nid>> /\ Step([cmd |-> "extract-circuit"], "yes", "empty")

Next == \/ \E k \in KeyFiles, m \in Modes \cup BadModes, d \in Dims : Setup(k, m, d)
        \/ \E k \in KeyFiles, what \in {"export-vk", "export-solidity", "export-solidity-stdout"} : Export_(k, what)
        \/ \E m \in Modes \cup BadModes, depth \in {2, 31, 32, 40} : R1cs(m, depth)
        \/ \E k \in KeyFiles, m \in Modes \cup BadModes, have \in BOOLEAN : ImportSetup(k, m, have)
        \/ ExtractCircuit
        \/ \E k \in KeyFiles, how \in {"garbage", "truncated"} : Damage(k, how)
        \/ \E k \in KeyFiles : Remove(k)
        \/ \E m \in Modes \cup BadModes, d \in Dims, v \in BOOLEAN : GenParams(m, d, v)
        \/ \E k \in KeyFiles, m \in Modes \cup BadModes : Prove(k, m)
        \/ \E k \in KeyFiles, m \in Modes \cup BadModes : Serve(k, m)
        \/ Tamper \/ (\E how \in {"empty", "whitespace"} : Blank(how))
        \/ \E k \in KeyFiles, m \in Modes \cup BadModes, h \in {"own", "other", "junk"} : Verify(k, m, h)
        \/ \E k, k2 \in KeyFiles : Convert(k, k2)
Spec == Init /\ [][Next]_vars

\* a success status is never reported for a wrong result
TruthfulExit == \A i \in 1..Len(hist) :
   /\ (hist[i].cmd \in {"setup", "gen-test-params", "prove", "verify", "r1cs", "import-setup", "serve"} /\ hist[i].mode \in BadModes => hist[i].exit0 = "no")
   /\ (hist[i].cmd = "verify" /\ i > 1 /\ hist[i - 1].cmd = "blank" => hist[i].exit0 = "no")                  \* nothing to verify is not a success
   /\ (hist[i].cmd = "serve" /\ hist[i].exit0 = "no" => hist[i].stdout = "empty")          \* a service that does not come up answers nothing
   /\ (hist[i].cmd = "prove" /\ hist[i].exit0 # "any" => (hist[i].exit0 = "yes" <=> hist[i].stdout = "proof"))
Export == Len(hist) = MaxSteps => PrintT("TRACE " \o ToJson(hist))
NoHistView == <<keys, params, proof>>
====
