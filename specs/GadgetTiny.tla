---- MODULE GadgetTiny ----
(***************************************************************************)
(* The InsertionProof / DeletionProof gadgets as RELATIONS over a tiny     *)
(* prime field F_P with the concrete Poseidon of Poseidon.tla reduced      *)
(* modulo P: TLC enumerates EVERY tuple of field elements                  *)
(*    (index, pre-root, post-root, items[1..Batch], proofs[1..Batch][1..Depth]) *)
(* and exports the accepted ones; the Go gadgets run in gnark's test       *)
(* engine over the same modulus on every tuple, and the two accepted sets  *)
(* must be equal.  Hash collisions are frequent in such a field, so this   *)
(* compares the WIRING of the gadgets on every input independently of the  *)
(* collision-freeness assumption of the symbolic model (MTB.tla).          *)
(* Requires 2^(Depth+1) <= P: digit decompositions are then unique and the *)
(* engine's honest ToBinary is the only witness.                           *)
(***************************************************************************)
EXTENDS Poseidon, FiniteSets, Json
CONSTANTS Depth, Batch, Kind,     \* Kind: "insertion" | "deletion"
          Sample,                \* FALSE: every tuple; TRUE: a structured sample (for fields too large to enumerate, e.g. the R1CS field F_47)
          HintMutant             \* "none" | "nobool" (digits not asserted boolean) | "noam" (a*m = 0 dropped): must violate HintSoundComplete
ASSUME FieldMode = "small" /\ 2^(Depth + 1) <= P

F == 0..(P - 1)
HT == TLCEval([a \in F |-> [b \in F |-> Poseidon2(a, b)]])
H(a, b) == HT[a][b]
Bit(v, l) == (v \div (2^(l - 1))) % 2            \* digit l (1-based) of the integer representative
Climb(leaf, idx, proof) == FoldLeft(LAMBDA s, l : IF Bit(idx, l) = 0 THEN H(s, proof[l]) ELSE H(proof[l], s), leaf, [l \in 1..Depth |-> l])

\* one insertion round: index decomposes into Depth digits; empty-leaf path equals prev; returns <<ok, out>>
InsRound(idx, item, prev, proof) == IF idx < 2^Depth /\ Climb(0, idx, proof) = prev THEN <<TRUE, Climb(item, idx, proof)>> ELSE <<FALSE, 0>>
\* one deletion round: Depth+1 digits, top digit = skip; (path(item) = root) or skip; out = skip ? root : path(0)
DelRound(idx, item, root, proof) ==
  IF idx >= 2^(Depth + 1) THEN <<FALSE, 0>>
  ELSE LET skip == Bit(idx, Depth + 1)  low == idx % (2^Depth)
       IN IF skip = 1 THEN <<TRUE, root>>
          ELSE IF Climb(item, low, proof) = root THEN <<TRUE, Climb(0, low, proof)>> ELSE <<FALSE, 0>>

(***************************************************************************)
(* The same gadgets at the level of their CONSTRAINTS, with the values a   *)
(* prover computes for itself as explicit wires h (any field elements):    *)
(*   digits d_1..d_n of the index (hint bits.NBits), the is-zero inverse   *)
(*   (hint InvZero).  Sat(x, h) is what the R1CS enforces:                 *)
(*   d_l (1 - d_l) = 0,  SUM d_l 2^(l-1) = index,  Select(b,x,y) = y + b (x - y), *)
(*   IsZero(a): m = 1 - a inv,  a m = 0;  Or(m, skip) = m + skip - m skip = 1.    *)
(* HintSound:    Sat(x, h) for SOME h  =>  Accepts(x)   (no choice of the  *)
(*               auxiliary values makes the circuit accept a bad input)    *)
(* HintComplete: Accepts(x)  =>  Sat(x, h) for some h.                     *)
(* Batch = 1 (one round) is enough: rounds are chained through the running *)
(* root only.                                                              *)
(***************************************************************************)
Sub(a, b) == (a + P - b) % P
SelectF(b, x, y) == (y + b * Sub(x, y)) % P
ClimbD(leaf, digits, proof) == FoldLeft(LAMBDA s, l : H(SelectF(digits[l], proof[l], s), SelectF(digits[l], s, proof[l])), leaf, [l \in 1..Depth |-> l])
NDigits == IF Kind = "insertion" THEN Depth ELSE Depth + 1
Hints == [d : [1..NDigits -> F], inv : F]
Recompose(d) == FoldLeft(LAMBDA a, l : (a + d[l] * 2^(l-1)) % P, 0, [l \in 1..NDigits |-> l])
Sat(x, h) ==
  /\ (HintMutant = "nobool" \/ \A l \in 1..NDigits : (h.d[l] * Sub(1, h.d[l])) % P = 0)
  /\ IF Kind = "insertion"
       THEN /\ Recompose(h.d) = x.idx
            /\ ClimbD(0, h.d, x.proofs[1]) = x.pre
            /\ ClimbD(x.items[1], h.d, x.proofs[1]) = x.post
       ELSE LET skip == h.d[Depth + 1]
                a    == Sub(ClimbD(x.items[1], h.d, x.proofs[1]), x.pre)
                m    == Sub(1, (a * h.inv) % P)
            IN /\ Recompose(h.d) = x.idx[1]
               /\ (HintMutant = "noam" \/ (a * m) % P = 0)
               /\ (m * Sub(1, m)) % P = 0                                   \* api.Or asserts its operands boolean
               /\ Sub((m + skip) % P, (m * skip) % P) = 1
               /\ SelectF(skip, x.pre, ClimbD(0, h.d, x.proofs[1])) = x.post

VARIABLES t, done
vars == <<t, done>>
Tuples == [idx : IF Kind = "insertion" THEN F ELSE [1..Batch -> F], pre : F, post : F, items : [1..Batch -> F], proofs : [1..Batch -> [1..Depth -> F]]]
Accepts(x) ==
  LET step(acc, i) == IF ~acc[1] THEN acc
                      ELSE IF Kind = "insertion" THEN InsRound((x.idx + i - 1) % P, x.items[i], acc[2], x.proofs[i])
                      ELSE DelRound(x.idx[i], x.items[i], acc[2], x.proofs[i])
      r == FoldLeft(step, <<TRUE, x.pre>>, [i \in 1..Batch |-> i])
  IN r[1] /\ r[2] = x.post
HintSoundComplete == (done /\ Batch = 1) => ((\E h \in Hints : Sat(t, h)) <=> Accepts(t))
\* structured sample: indices around the range bounds, a few items and siblings, pre/post roots right or off by one
SampleTuples ==
  LET IdxS == {0, 1, 2^Depth - 1, 2^Depth, 2^Depth + 1, 2^(Depth + 1) - 1, 2^(Depth + 1), P - 1} \cap F
      ItS  == {0, 1, P - 1}
      PrS  == [1..Depth -> {0, 3}]
  \* the data (path, roots) may be that of the leaf the index addresses, or of the leaf a too-wide / non-unique decomposition of the index
  \* would address instead: idx + P has boolean digits too once more than log2(P) - 1 of them are asked for
  IN UNION {LET low == (i + al * P) % (2^Depth)  pre0 == Climb(0, low, pr)  post0 == Climb(it, low, pr)
            IN {[idx |-> IF Kind = "insertion" THEN i ELSE <<i>>, pre |-> pre, post |-> post, items |-> <<it>>, proofs |-> <<pr>>,
                 cls |-> IF low = i % (2^Depth) THEN "own" ELSE "alias", consistent |-> (pre = pre0 /\ post = post0)] :
                  pre \in {pre0, post0, (pre0 + 1) % P}, post \in {pre0, post0, (post0 + 1) % P}}
            : i \in IdxS, it \in ItS, pr \in PrS, al \in {0, 1}}
Init == t \in (IF Sample THEN SampleTuples ELSE Tuples) /\ done = FALSE
Next == ~done /\ done' = TRUE /\ UNCHANGED t
Spec == Init /\ [][Next]_vars
Export == (done /\ (Sample \/ Accepts(t))) => PrintT("TRACE " \o ToJson(IF Sample THEN [t |-> t, accept |-> Accepts(t)] ELSE t))
====
