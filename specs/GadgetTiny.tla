---- MODULE GadgetTiny ----
(***************************************************************************)
(* The InsertionProof / DeletionProof gadgets as RELATIONS over a tiny     *)
(* prime field F_P with the concrete Poseidon of Poseidon.tla reduced      *)
(* modulo P: TLC enumerates EVERY tuple of field elements                  *)
(*    (index, pre-root, post-root, items[1..Batch], proofs[1..Batch][1..Depth]) *)
(* and exports the accepted ones; the Go gadgets run in gnark's test       *)
(* engine over the same modulus on every tuple, and the two accepted sets  *)
(* must be equal.  Hash collisions are frequent in such a field, so this   *)
(* compares the WIRING of the gadgets on every input independently of the  *)
(* collision-freeness assumption of the symbolic model (MTB.tla).          *)
(* Requires 2^(Depth+1) <= P: digit decompositions are then unique and the *)
(* engine's honest ToBinary is the only witness.                           *)
(***************************************************************************)
EXTENDS Poseidon, FiniteSets, Json
CONSTANTS Depth, Batch, Kind      \* Kind: "insertion" | "deletion"
ASSUME FieldMode = "small" /\ 2^(Depth + 1) <= P

F == 0..(P - 1)
HT == TLCEval([a \in F |-> [b \in F |-> Poseidon2(a, b)]])
H(a, b) == HT[a][b]
Bit(v, l) == (v \div (2^(l - 1))) % 2            \* digit l (1-based) of the integer representative
Climb(leaf, idx, proof) == FoldLeft(LAMBDA s, l : IF Bit(idx, l) = 0 THEN H(s, proof[l]) ELSE H(proof[l], s), leaf, [l \in 1..Depth |-> l])

\* one insertion round: index decomposes into Depth digits; empty-leaf path equals prev; returns <<ok, out>>
InsRound(idx, item, prev, proof) == IF idx < 2^Depth /\ Climb(0, idx, proof) = prev THEN <<TRUE, Climb(item, idx, proof)>> ELSE <<FALSE, 0>>
\* one deletion round: Depth+1 digits, top digit = skip; (path(item) = root) or skip; out = skip ? root : path(0)
DelRound(idx, item, root, proof) ==
  IF idx >= 2^(Depth + 1) THEN <<FALSE, 0>>
  ELSE LET skip == Bit(idx, Depth + 1)  low == idx % (2^Depth)
       IN IF skip = 1 THEN <<TRUE, root>>
          ELSE IF Climb(item, low, proof) = root THEN <<TRUE, Climb(0, low, proof)>> ELSE <<FALSE, 0>>

VARIABLES t, done
vars == <<t, done>>
Tuples == [idx : IF Kind = "insertion" THEN F ELSE [1..Batch -> F], pre : F, post : F, items : [1..Batch -> F], proofs : [1..Batch -> [1..Depth -> F]]]
Accepts(x) ==
  LET step(acc, i) == IF ~acc[1] THEN acc
                      ELSE IF Kind = "insertion" THEN InsRound((x.idx + i - 1) % P, x.items[i], acc[2], x.proofs[i])
                      ELSE DelRound(x.idx[i], x.items[i], acc[2], x.proofs[i])
      r == FoldLeft(step, <<TRUE, x.pre>>, [i \in 1..Batch |-> i])
  IN r[1] /\ r[2] = x.post
Init == t \in Tuples /\ done = FALSE
Next == ~done /\ done' = TRUE /\ UNCHANGED t
Spec == Init /\ [][Next]_vars
Export == (done /\ Accepts(t)) => PrintT("TRACE " \o ToJson(t))
====
