---- MODULE GateTrace ----
(***************************************************************************)
(* Structural binding of the bit-encoding gadgets to ReducedCheck.tla.     *)
(* The Lean extractor records the gates a gadget's DefineGadget emits, in  *)
(* order — the extracted definition IS a trace of Define.  This trace      *)
(* specification consumes that gate list (parsed to ndjson by the driver)  *)
(* and accepts it only if it is, gate by gate, the ScanBit machine of      *)
(* ReducedCheck.tla for the BN254 modulus:                                 *)
(*   per position i = N-1 .. 0:  is_bool Input[i];                         *)
(*     modulus bit 0:  or Input[i] failed -> g ; select succeeded 0 g -> failed'     *)
(*     modulus bit 1:  sub 1 Input[i] -> n ; or n succeeded -> g ; select failed 0 g -> succeeded' *)
(*   finally: eq succeeded 1.                                              *)
(* Wires are names ("0" / "1" constants, "Input[i]", "gate_k").  TLC has   *)
(* shown (ReducedCheck.tla, "walk" mode) that this machine accepts exactly *)
(* the canonical digit vectors among ALL 3^256; an accepted gate trace     *)
(* transfers that statement to the extracted circuit — the fresh           *)
(* extraction of the current Go code and the committed Lean model alike.   *)
(* A REJECTED gate trace only says the gadget is no longer written this    *)
(* way; the behavioural legs of C06 decide in that case.                   *)
(* The same module checks the emission order of ToReducedBigEndian (and    *)
(* FromBinaryBigEndian): position k of the output is digit (N-8-8g)+j.     *)
(***************************************************************************)
EXTENDS Integers, Sequences, TLC, BigField, Json, IOUtils
CONSTANTS N
Trace == ndJsonDeserialize(IOEnv.TRACE_FILE)
BN254R == "21888242871839275222246405745257275088548364400416034343698204186575808495617"
ModBits == NBitsLE(BN254R, 256)
ModBit(i) == IF i < 256 THEN ModBits[i + 1] ELSE 0
In(i) == "Input[" \o ToString(i) \o "]"

VARIABLES l, i, stage, failed, succeeded, tmp
vars == <<l, i, stage, failed, succeeded, tmp>>
Init == l = 1 /\ i = N - 1 /\ stage = "bool" /\ failed = "0" /\ succeeded = "0" /\ tmp = "" /\ TLCSet(1, 1)
G == Trace[l]
Step ==
  /\ l <= Len(Trace) /\ l' = l + 1
  /\ \/ /\ stage = "bool" /\ i >= 0 /\ G.op = "is_bool" /\ G.args = <<In(i)>>
        /\ stage' = (IF ModBit(i) = 0 THEN "or0" ELSE "sub") /\ UNCHANGED <<i, failed, succeeded, tmp>>
     \/ /\ stage = "or0" /\ G.op = "or" /\ G.args = <<In(i), failed>>
        /\ tmp' = G.out /\ stage' = "sel0" /\ UNCHANGED <<i, failed, succeeded>>
     \/ /\ stage = "sel0" /\ G.op = "select" /\ G.args = <<succeeded, "0", tmp>>
        /\ failed' = G.out /\ stage' = "bool" /\ i' = i - 1 /\ UNCHANGED <<succeeded, tmp>>
     \/ /\ stage = "sub" /\ G.op = "sub" /\ G.args = <<"1", In(i)>>
        /\ tmp' = G.out /\ stage' = "or1" /\ UNCHANGED <<i, failed, succeeded>>
     \/ /\ stage = "or1" /\ G.op = "or" /\ G.args = <<tmp, succeeded>>
        /\ tmp' = G.out /\ stage' = "sel1" /\ UNCHANGED <<i, failed, succeeded>>
     \/ /\ stage = "sel1" /\ G.op = "select" /\ G.args = <<failed, "0", tmp>>
        /\ succeeded' = G.out /\ stage' = "bool" /\ i' = i - 1 /\ UNCHANGED <<failed, tmp>>
     \/ /\ stage = "bool" /\ i = -1 /\ G.op = "eq" /\ G.args = <<succeeded, "1">>
        /\ stage' = "done" /\ UNCHANGED <<i, failed, succeeded, tmp>>
     \* emission order of ToReducedBigEndian / FromBinaryBigEndian: one "emit" line per output position
     \/ /\ stage = "done" /\ G.op = "emit" /\ G.k \in 0..(G.n - 1)
        /\ G.idx = (G.n - 8 - 8 * (G.k \div 8)) + (G.k % 8)
        /\ UNCHANGED <<i, stage, failed, succeeded, tmp>>
Spec == Init /\ [][Step]_vars
HighWater == TLCSet(1, IF l > TLCGet(1) THEN l ELSE TLCGet(1))
TraceAccepted == PrintT(<<"HWM", TLCGet(1), Len(Trace)>>) /\ TLCGet(1) = Len(Trace) + 1
====
