---- MODULE JobTree ----
(***************************************************************************)
(* The job algebra of server/job.go on its own: SpawnJob(start, shutdown)  *)
(* and CombineJobs(jobs...) nested to any shape, with the caller's API     *)
(* (RequestStop, AwaitStop) including its misuse.  Server.tla fixes the    *)
(* shape  c = Combine(m, p)  and refines the leaves into net/http steps;   *)
(* this module states what the combinators guarantee for EVERY shape, and  *)
(* is bound to the code by trace validation (TraceJobTree.tla): the real   *)
(* SpawnJob / CombineJobs are run over random trees of instrumented start  *)
(* and shutdown functions.                                                 *)
(*                                                                         *)
(* Per node n (a RunningJob):                                              *)
(*   waiter goroutine   <-stop; shutdown(); [<-startDone]; close(closed)   *)
(*   start goroutine    start(); close(startDone)                          *)
(* leaf:  start / shutdown are the user's functions; a "serve" start       *)
(*        returns only once shutdown has been called (ListenAndServe), a   *)
(*        "short" start returns by itself                                  *)
(* inner: start is empty; shutdown = RequestStop(k) for every child in     *)
(*        order, then AwaitStop(k) for every child in order                *)
(* RequestStop = close(stop): a second call on the same job panics         *)
(* ("close of closed channel") - in the caller if the caller made it, in   *)
(* the parent's waiter goroutine (killing the process) if the parent did.  *)
(* AwaitStop blocks until closed; without a RequestStop it blocks forever. *)
(***************************************************************************)
EXTENDS Naturals, Sequences, FiniteSets, TLC
CONSTANTS Nodes, Inner,   \* node ids; Inner \subseteq Nodes are CombineJobs nodes
          Kids,           \* [Inner -> Seq(Nodes)] children in argument order (may be empty)
          Root,
          Serve,          \* \subseteq Nodes \ Inner: leaves whose start returns only after shutdown was called
          WaitForStart,   \* TRUE = the waiter joins the start goroutine (code after the C14 fix)
          AwaitAll,       \* TRUE = CombineJobs awaits every child; FALSE = only the last (mutant)
          Misuse          \* how many RequestStop calls beyond the one on Root the caller may make (on any node)

Leaves == Nodes \ Inner
KidSet(n) == IF n \in Inner THEN {Kids[n][i] : i \in 1..Len(Kids[n])} ELSE {}
RECURSIVE Desc(_)
Desc(n) == {n} \cup UNION {Desc(k) : k \in KidSet(n)}

VARIABLES stop, closed,      \* the two channels of each job (TRUE = closed channel)
          pcW, ki,           \* waiter goroutine and its loop index
          pcS,               \* start goroutine
          shut,              \* leaf shutdown function: "no" | "begun" | "ended"
          calls,             \* [Nodes -> number of RequestStop calls made on the job, by anyone]
          extra,             \* external RequestStop calls made beyond the first on Root
          panicked,          \* "no" | "caller" | "goroutine"
          awaited            \* nodes for which an external AwaitStop has returned
vars == <<stop, closed, pcW, ki, pcS, shut, calls, extra, panicked, awaited>>

Init == /\ stop = [n \in Nodes |-> FALSE] /\ closed = [n \in Nodes |-> FALSE]
        /\ pcW = [n \in Nodes |-> "wait"] /\ ki = [n \in Nodes |-> 1]
        /\ pcS = [n \in Nodes |-> "spawned"] /\ shut = [n \in Nodes |-> "no"]
        /\ calls = [n \in Nodes |-> 0] /\ extra = 0 /\ panicked = "no" /\ awaited = {}

Alive == panicked # "goroutine"          \* a panic in a goroutine ends the process

\* ---- the caller -----------------------------------------------------------
ExtStop(n) == /\ Alive
              /\ \/ n = Root /\ calls[Root] = 0 /\ UNCHANGED extra
                 \/ extra < Misuse /\ extra' = extra + 1
              /\ calls' = [calls EXCEPT ![n] = @ + 1]
              /\ IF stop[n] THEN panicked' = "caller" /\ UNCHANGED stop       \* recoverable: the caller's goroutine panics
                            ELSE stop' = [stop EXCEPT ![n] = TRUE] /\ UNCHANGED panicked
              /\ UNCHANGED <<closed, pcW, ki, pcS, shut, awaited>>
ExtAwait(n) == /\ Alive /\ closed[n] /\ n \notin awaited /\ awaited' = awaited \cup {n}
               /\ UNCHANGED <<stop, closed, pcW, ki, pcS, shut, calls, extra, panicked>>

\* ---- waiter goroutine -----------------------------------------------------
Wake(n) == /\ Alive /\ pcW[n] = "wait" /\ stop[n]
           /\ pcW' = [pcW EXCEPT ![n] = IF n \in Inner THEN "req" ELSE "sd"]
           /\ UNCHANGED <<stop, closed, ki, pcS, shut, calls, extra, panicked, awaited>>
SdBegin(n) == /\ Alive /\ n \in Leaves /\ pcW[n] = "sd" /\ pcW' = [pcW EXCEPT ![n] = "sdrun"] /\ shut' = [shut EXCEPT ![n] = "begun"]
              /\ UNCHANGED <<stop, closed, ki, pcS, calls, extra, panicked, awaited>>
SdEnd(n) == /\ Alive /\ n \in Leaves /\ pcW[n] = "sdrun" /\ pcW' = [pcW EXCEPT ![n] = "join"] /\ shut' = [shut EXCEPT ![n] = "ended"]
            /\ UNCHANGED <<stop, closed, ki, pcS, calls, extra, panicked, awaited>>
\* for _, job := range jobs { job.RequestStop() }
Req(n) == /\ Alive /\ n \in Inner /\ pcW[n] = "req"
          /\ IF ki[n] > Len(Kids[n])
               THEN /\ pcW' = [pcW EXCEPT ![n] = "await"]
                    /\ ki' = [ki EXCEPT ![n] = IF AwaitAll \/ Len(Kids[n]) = 0 THEN 1 ELSE Len(Kids[n])]
                    /\ UNCHANGED <<stop, calls, panicked>>
               ELSE LET k == Kids[n][ki[n]] IN
                    /\ calls' = [calls EXCEPT ![k] = @ + 1]
                    /\ IF stop[k] THEN panicked' = "goroutine" /\ UNCHANGED <<stop, ki, pcW>>
                                  ELSE stop' = [stop EXCEPT ![k] = TRUE] /\ ki' = [ki EXCEPT ![n] = @ + 1] /\ UNCHANGED <<panicked, pcW>>
          /\ UNCHANGED <<closed, pcS, shut, extra, awaited>>
\* for _, job := range jobs { job.AwaitStop() }
Aw(n) == /\ Alive /\ n \in Inner /\ pcW[n] = "await"
         /\ IF ki[n] > Len(Kids[n]) THEN pcW' = [pcW EXCEPT ![n] = "join"] /\ UNCHANGED ki
            ELSE closed[Kids[n][ki[n]]] /\ ki' = [ki EXCEPT ![n] = @ + 1] /\ UNCHANGED pcW
         /\ UNCHANGED <<stop, closed, pcS, shut, calls, extra, panicked, awaited>>
Join(n) == /\ Alive /\ pcW[n] = "join" /\ (WaitForStart => pcS[n] = "done")
           /\ closed' = [closed EXCEPT ![n] = TRUE] /\ pcW' = [pcW EXCEPT ![n] = "done"]
           /\ UNCHANGED <<stop, ki, pcS, shut, calls, extra, panicked, awaited>>

\* ---- start goroutine ------------------------------------------------------
SBegin(n) == /\ Alive /\ pcS[n] = "spawned" /\ pcS' = [pcS EXCEPT ![n] = "running"]
             /\ UNCHANGED <<stop, closed, pcW, ki, shut, calls, extra, panicked, awaited>>
SRet(n) == /\ Alive /\ pcS[n] = "running" /\ (n \in Serve => shut[n] # "no")
           /\ pcS' = [pcS EXCEPT ![n] = "done"]
           /\ UNCHANGED <<stop, closed, pcW, ki, shut, calls, extra, panicked, awaited>>

NodeStep(n) == Wake(n) \/ SdBegin(n) \/ SdEnd(n) \/ Req(n) \/ Aw(n) \/ Join(n) \/ SBegin(n) \/ SRet(n)
Next == (\E n \in Nodes : ExtStop(n) \/ ExtAwait(n) \/ NodeStep(n))
Spec == Init /\ [][Next]_vars
FairSpec == Spec /\ \A n \in Nodes : WF_vars(NodeStep(n))

(***************************************************************************)
(* Properties                                                              *)
(***************************************************************************)
TypeOK == /\ pcW \in [Nodes -> {"wait", "sd", "sdrun", "req", "await", "join", "done"}]
          /\ pcS \in [Nodes -> {"spawned", "running", "done"}]
          /\ shut \in [Nodes -> {"no", "begun", "ended"}]
\* AwaitStop(n) has returned => everything below n is over: every start function has returned, every shutdown function has returned
ClosedMeansOver == \A n \in Nodes : closed[n] =>
                      \A d \in Desc(n) : /\ closed[d] /\ pcS[d] = "done"
                                         /\ (d \in Leaves => shut[d] = "ended")
AwaitSound == \A n \in awaited : closed[n]
\* nothing is shut down that was not asked to stop, and a stop reaches a node only from the caller or from its parent
ShutdownOnlyAfterStop == \A n \in Nodes : (shut[n] # "no" \/ pcW[n] # "wait") => stop[n]
StopHasCause == \A n \in Nodes : stop[n] => calls[n] >= 1
\* the parent asks all its children before it waits for any (so that servers shut down concurrently)
AllAskedBeforeWaiting == \A n \in Inner : pcW[n] \in {"await", "join", "done"} => \A k \in KidSet(n) : stop[k]
\* "close of closed channel" happens only when some job was asked twice
PanicOnlyByMisuse == panicked # "no" => \E n \in Nodes : calls[n] >= 2
NoPanicInProperUse == Misuse = 0 => panicked = "no"
\* stop and wait never deadlock (proper use): once the root is asked, it closes
Terminates == (Misuse = 0) => (stop[Root] ~> closed[Root])
\* AwaitStop without RequestStop never returns
NoSpontaneousClose == \A n \in Nodes : closed[n] => stop[n]
====
