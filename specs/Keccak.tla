---- MODULE Keccak ----
(***************************************************************************)
(* Executable specification of Keccak-f[1600], the sponge with rate 1088,  *)
(* Keccak-256 (Ethereum, pre-FIPS padding) and SHA3-256 (FIPS 202).        *)
(*                                                                         *)
(* Nothing here is copied from prover/keccak: the round constants are      *)
(* derived from the FIPS-202 LFSR (Algorithm 5) and the rotation offsets   *)
(* from the (t+1)(t+2)/2 walk (Algorithm 2); known-answer tests in         *)
(* KeccakKAT.tla pin the result to published digests.                      *)
(*                                                                         *)
(* Messages are sequences of bits (1-indexed), least-significant bit of    *)
(* each byte first — the order in which the gadget consumes and produces   *)
(* bits.  A lane is a function 0..63 -> {0,1}; the state is a function     *)
(* 0..24 -> lane with index x + 5y.                                        *)
(***************************************************************************)
EXTENDS Integers, Sequences, TLC, SequencesExt

Xor(a, b) == IF a = b THEN 0 ELSE 1
L == 0..63
ZeroLane == TLCEval([i \in L |-> 0])
ZeroState == TLCEval([k \in 0..24 |-> ZeroLane])
Rate == 1088
Pow2(n) == 2^n

\* rc(t): FIPS 202 Algorithm 5, LFSR x^8 + x^6 + x^5 + x^4 + 1
Lfsr1(R, dummy) ==
  LET R9 == <<0>> \o R
  IN <<Xor(R9[1], R9[9]), R9[2], R9[3], R9[4], Xor(R9[5], R9[9]), Xor(R9[6], R9[9]), Xor(R9[7], R9[9]), R9[8]>>
LfsrStep(R, n) == FoldLeft(Lfsr1, R, [k \in 1..n |-> k])
rc(t) == LET m == t % 255 IN IF m = 0 THEN 1 ELSE LfsrStep(<<1, 0, 0, 0, 0, 0, 0, 0>>, m)[1]
RCbits(ir) == [i \in L |-> IF \E j \in 0..6 : i = Pow2(j) - 1 /\ rc(j + 7 * ir) = 1 THEN 1 ELSE 0]
RCtab == TLCEval([ir \in 0..23 |-> RCbits(ir)])

\* rotation offsets: FIPS 202 Algorithm 2 (rho)
RECURSIVE RhoWalk(_, _, _, _)
RhoWalk(t, x, y, acc) ==
  IF t = 24 THEN acc
  ELSE RhoWalk(t + 1, y, (2 * x + 3 * y) % 5, TLCEval([acc EXCEPT ![x + 5 * y] = (((t + 1) * (t + 2)) \div 2) % 64]))
Rho == TLCEval(RhoWalk(0, 1, 0, [i \in 0..24 |-> 0]))

Rot(W, r) == TLCEval([i \in L |-> W[(i - r) % 64]])
XorL(A, B) == TLCEval([i \in L |-> Xor(A[i], B[i])])

\* one round: theta, rho, pi, chi, iota
Round(A, ir) ==
  LET C  == TLCEval([x \in 0..4 |-> [i \in L |-> (A[x][i] + A[x + 5][i] + A[x + 10][i] + A[x + 15][i] + A[x + 20][i]) % 2]])
      D  == TLCEval([x \in 0..4 |-> XorL(C[(x + 4) % 5], Rot(C[(x + 1) % 5], 1))])
      A1 == TLCEval([k \in 0..24 |-> XorL(A[k], D[k % 5])])
      \* B[y, 2x+3y] = rot(A[x,y], r[x,y]):  B at (X,Y) comes from x = (X + 3Y) mod 5, y = X
      B  == TLCEval([k \in 0..24 |-> LET X == k % 5  Y == k \div 5  x == (X + 3 * Y) % 5  y == X
                                     IN Rot(A1[x + 5 * y], Rho[x + 5 * y])])
      A2 == TLCEval([k \in 0..24 |-> LET X == k % 5  Y == k \div 5
                                     IN [i \in L |-> Xor(B[k][i], IF B[((X + 1) % 5) + 5 * Y][i] = 0 /\ B[((X + 2) % 5) + 5 * Y][i] = 1 THEN 1 ELSE 0)]])
  IN TLCEval([A2 EXCEPT ![0] = XorL(A2[0], RCtab[ir])])

KeccakF(A) == FoldLeft(LAMBDA acc, ir : Round(acc, ir), A, [k \in 1..24 |-> k - 1])

(***************************************************************************)
(* Padding.  FipsPad is the standard: message, domain suffix bits, then    *)
(* pad10*1 (a 1, the minimal number of 0s, a 1) up to a multiple of the    *)
(* rate.  Keccak-256 has no suffix; SHA3-256 has suffix 01.                *)
(***************************************************************************)
Suffix(dom) == IF dom = "keccak" THEN <<>> ELSE <<0, 1>>
FipsPad(M, dom) ==
  LET s == M \o Suffix(dom)
      j == (-(Len(s)) - 2) % Rate
  IN s \o <<1>> \o [k \in 1..j |-> 0] \o <<1>>
(* Implementation-shaped padding (the arithmetic of KeccakGadget): padded   *)
(* size from InputSize+8 rounded up to the rate, domain BYTE (0x01 / 0x06)  *)
(* written LSB-first after the data, zero fill, last bit xor 1.             *)
DomByte(dom) == IF dom = "keccak" THEN 1 ELSE 6
ImplPad(M, dom) ==
  LET n == Len(M)
      total == IF n = 0 THEN Rate ELSE ((n + 8 + Rate - 1) \div Rate) * Rate
      d == DomByte(dom)
  IN [i \in 1..total |-> LET b == IF i <= n THEN M[i] ELSE IF i <= n + 8 THEN (d \div Pow2(i - n - 1)) % 2 ELSE 0
                         IN IF i = total THEN Xor(b, 1) ELSE b]

\* absorb one rate-sized block starting at bit offset off (0-based) of the padded string P
AbsorbBlock(S, P, off) ==
  KeccakF(TLCEval([k \in 0..24 |-> IF k < 17 THEN [i \in L |-> Xor(S[k][i], P[off + 64 * k + i + 1])] ELSE S[k]]))
Absorb(P) == FoldLeft(LAMBDA S, off : AbsorbBlock(S, P, off), ZeroState, [b \in 1..(Len(P) \div Rate) |-> (b - 1) * Rate])
\* squeeze 256 bits: lanes 0..3, bit i of the digest = bit (i mod 64) of lane (i div 64)
Squeeze(S) == [i \in 1..256 |-> S[(i - 1) \div 64][(i - 1) % 64]]
Digest(M, dom) == Squeeze(Absorb(FipsPad(M, dom)))
Keccak256(M) == Digest(M, "keccak")
SHA3_256(M)  == Digest(M, "sha3")

\* helpers: bytes <-> bit strings (LSB first inside each byte), hex rendering of a digest
BitsOfBytes(bs) == [i \in 1..(8 * Len(bs)) |-> (bs[((i - 1) \div 8) + 1] \div Pow2((i - 1) % 8)) % 2]
BytesOfBits(b) == [j \in 1..(Len(b) \div 8) |-> b[8*j-7] + 2*b[8*j-6] + 4*b[8*j-5] + 8*b[8*j-4] + 16*b[8*j-3] + 32*b[8*j-2] + 64*b[8*j-1] + 128*b[8*j]]
====
