---- MODULE KeccakKAT ----
(* Known-answer tests pinning Keccak.tla to the published digests (first 8 bytes of each). *)
EXTENDS Keccak
First8(d) == SubSeq(BytesOfBits(d), 1, 8)
\* Keccak-256("") = c5d2460186f7233c 927e7db2dcc703c0 ...
ASSUME First8(Keccak256(<<>>)) = <<197, 210, 70, 1, 134, 247, 35, 60>>
\* Keccak-256("abc") = 4e03657aea45a94f c7d47ba826c8d667 ...
ASSUME First8(Keccak256(BitsOfBytes(<<97, 98, 99>>))) = <<78, 3, 101, 122, 234, 69, 169, 79>>
\* SHA3-256("") = a7ffc6f8bf1ed766 51c14756a061d662 ...
ASSUME First8(SHA3_256(<<>>)) = <<167, 255, 198, 248, 191, 30, 215, 102>>
\* SHA3-256("abc") = 3a985da74fe225b2 045c172d6bd390bd ...
ASSUME First8(SHA3_256(BitsOfBytes(<<97, 98, 99>>))) = <<58, 152, 93, 167, 79, 226, 37, 178>>
\* round constants and offsets against the published tables (spot values)
ASSUME BytesOfBits([i \in 1..64 |-> RCtab[1][i-1]]) = <<130, 128, 0, 0, 0, 0, 0, 0>>     \* RC[1] = 0x0000000000008082
ASSUME BytesOfBits([i \in 1..64 |-> RCtab[23][i-1]]) = <<8, 128, 0, 128, 0, 0, 0, 128>>  \* RC[23] = 0x8000000080008008
ASSUME Rho[1] = 1 /\ Rho[5] = 36 /\ Rho[6] = 44 /\ Rho[24] = 14 /\ Rho[0] = 0
VARIABLE x
Init == x = 0
Next == UNCHANGED x
====
