---- MODULE KeccakMC ----
(***************************************************************************)
(* Sponge machine for C04 at the grain of KeccakGadget: Pad, then one      *)
(* AbsorbBlock (xor 17 lanes + Keccak-f) per rate block, then Squeeze.     *)
(* Init picks (byte length, content class, domain); the padded string is   *)
(* built with the IMPLEMENTATION-SHAPED arithmetic (ImplPad) and the       *)
(* invariant PaddingAgrees demands that it equals the standard pad10*1     *)
(* string — including the lengths n = 135 mod 136 where the domain bits    *)
(* and the final bit share a byte.  Complete behaviours are exported with  *)
(* message and digest bytes and replayed into the Go gadget.               *)
(***************************************************************************)
EXTENDS Keccak, Json
CONSTANTS Lens, Contents, Doms, PadMode   \* PadMode: "impl" (faithful) | mutant "floor+1"
VARIABLES len, content, dom, msg, padded, S, blk, phase, digest
vars == <<len, content, dom, msg, padded, S, blk, phase, digest>>

Rnd(seed, i) == ((((i * 7919 + seed * 10007) % 65521) * ((i % 97) + 3)) \div 7) % 2
MsgBits(n, c) ==
  LET nb == 8 * n IN
  [i \in 1..nb |-> CASE c = "zero" -> 0
                     [] c = "ones" -> 1
                     [] c = "first" -> IF i = 1 THEN 1 ELSE 0
                     [] c = "last" -> IF i = nb THEN 1 ELSE 0
                     [] c = "boundary" -> IF i % Rate \in {0, 1} THEN 1 ELSE 0      \* bits adjacent to every rate boundary
                     [] c = "rnd1" -> Rnd(1, i)
                     [] c = "rnd2" -> Rnd(2, i)
                     [] OTHER -> Rnd(3, i)]

\* mutants of the padded-size / final-bit arithmetic (non-vacuity of PaddingAgrees)
PadOf(M, d) ==
  CASE PadMode = "impl" -> ImplPad(M, d)
    [] PadMode = "floor+1" ->      \* an extra block at exact multiples: (n+8) div r + 1 blocks
         LET n == Len(M)  total == ((n + 8) \div Rate + 1) * Rate  dd == DomByte(d)
         IN [i \in 1..total |-> LET b == IF i <= n THEN M[i] ELSE IF i <= n + 8 THEN (dd \div Pow2(i - n - 1)) % 2 ELSE 0
                                IN IF i = total THEN Xor(b, 1) ELSE b]
    [] OTHER -> ImplPad(M, d)

Init == /\ len \in Lens /\ content \in Contents /\ dom \in Doms
        /\ msg = MsgBits(len, content)
        /\ padded = <<>> /\ S = ZeroState /\ blk = 0 /\ phase = "pad" /\ digest = <<>>
Pad == /\ phase = "pad" /\ padded' = PadOf(msg, dom) /\ phase' = "absorb"
       /\ UNCHANGED <<len, content, dom, msg, S, blk, digest>>
AbsorbStep == /\ phase = "absorb" /\ blk * Rate < Len(padded)
              /\ S' = AbsorbBlock(S, padded, blk * Rate) /\ blk' = blk + 1
              /\ UNCHANGED <<len, content, dom, msg, padded, phase, digest>>
SqueezeStep == /\ phase = "absorb" /\ blk * Rate = Len(padded)
               /\ digest' = Squeeze(S) /\ phase' = "done"
               /\ UNCHANGED <<len, content, dom, msg, padded, S, blk>>
Next == Pad \/ AbsorbStep \/ SqueezeStep
Spec == Init /\ [][Next]_vars

PaddingAgrees == phase # "pad" => padded = FipsPad(msg, dom)
BlockCount == phase # "pad" => Len(padded) % Rate = 0 /\ Len(padded) = ((8 * len + (IF dom = "keccak" THEN 0 ELSE 2) + 2 + Rate - 1) \div Rate) * Rate
Export == phase = "done" =>
   PrintT("TRACE " \o ToJson([len |-> len, content |-> content, dom |-> dom, msg |-> BytesOfBits(msg), digest |-> BytesOfBits(digest)]))
====
