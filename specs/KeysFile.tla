---- MODULE KeysFile ----
(***************************************************************************)
(* The proving-system file (prover/marshal.go: WriteTo / WriteRawTo /      *)
(* UnsafeReadFrom / ReadSystemFromFile; main.go: setup, import-setup,      *)
(* convert-to-raw write such files, start / prove / verify / export read   *)
(* them) as a small file-system machine.                                   *)
(*                                                                         *)
(* A file is four sections in fixed order                                  *)
(*     header = depth(4) || batch(4),  proving key,  verifying key,        *)
(*     constraint system (CBOR)                                            *)
(* with the keys in compressed ("c") or raw ("r") point encoding; the      *)
(* reader accepts either encoding.  Contents are abstract (which system's  *)
(* pk / vk / cs a section holds); LENGTHS are concrete, taken from files   *)
(* actually written by the code, so that Crash(f, cut) can cut at EVERY    *)
(* byte offset.  Reader = one step per section, each succeeding only if    *)
(* its whole section is present.                                           *)
(***************************************************************************)
EXTENDS Integers, Sequences, FiniteSets, TLC, Json
CONSTANTS Systems,     \* set of system ids (strings)
          Dim,         \* [Systems -> [mode, depth, batch]]
          SecLen,      \* [Systems -> ["c" | "r" -> <<hdr, pk, vk, cs>>]]   section lengths in bytes
          Files,       \* set of file names
          MaxOps,
          CutMode,     \* "none" | "all" | "classes" : which cut offsets Crash may choose
          ReaderVariant, \* "code" | mutants: "ignore-cs-eof", "stop-after-vk"
          AllowLinks,   \* TRUE: names may be hard links / symbolic links to another name's file (Link action)
          ConvertVariant \* "code" = the source is read completely before the output is created;
                        \* mutant "create-first" = the output is created (truncated) before the source is read, unless the two NAMES are equal

Fmts == {"c", "r"}
Total(s, f) == SecLen[s][f][1] + SecLen[s][f][2] + SecLen[s][f][3] + SecLen[s][f][4]
RECURSIVE Bound(_, _, _)
Bound(s, f, k) == IF k = 0 THEN 0 ELSE SecLen[s][f][k] + Bound(s, f, k - 1)   \* end offset of section k
NoFile == [exists |-> FALSE]

VARIABLES files,    \* [inode -> NoFile or [exists, sys, fmt, len]]  (len = bytes present); inodes are identified by the name that created them
          ino,      \* [Files -> inode]: which file a NAME refers to.  ln / ln -s make two names refer to one file; creating (truncating),
                    \* writing and reading go through the name to the file, so every alias sees the effect (os.Create follows symbolic links
                    \* and truncates the existing inode of a hard link)
          loaded,   \* result of the last Read / Convert: [ok, sys] 
          hist
vars == <<files, ino, loaded, hist>>
Init == files = [f \in Files |-> NoFile] /\ ino = [f \in Files |-> f] /\ loaded = [ok |-> FALSE, sys |-> "none"] /\ hist = <<>>

Rec(op) == hist' = Append(hist, op)
\* setup / import-setup / convert-to-raw: the writer emits the four sections in order
Write(s, fmt, f) == /\ Len(hist) < MaxOps
                    /\ files' = [files EXCEPT ![ino[f]] = [exists |-> TRUE, sys |-> s, fmt |-> fmt, len |-> Total(s, fmt)]]
                    /\ UNCHANGED <<loaded, ino>> /\ Rec([op |-> "write", sys |-> s, fmt |-> fmt, file |-> f])
\* ln f g / ln -s f g: the name g now refers to f's file (g's previous file, if any, is unlinked)
Link(f, g, kind) == /\ AllowLinks /\ Len(hist) < MaxOps /\ kind \in {"hard", "sym"}
                    /\ ino[f] # ino[g] /\ files[ino[f]].exists
                    /\ \A h \in Files : ino[h] = ino[g] => h = g          \* g is not itself the target of a link (keeps symlink chains out)
                    /\ ino[f] = f                                        \* links point at original names
                    /\ ino' = [ino EXCEPT ![g] = ino[f]]
                    /\ files' = [files EXCEPT ![g] = NoFile]
                    /\ UNCHANGED loaded /\ Rec([op |-> "link", file |-> f, to |-> g, kind |-> kind])
\* a crash / interrupted copy leaves any strict prefix
CutCands(s, fmt) ==
  LET T == Total(s, fmt) IN
  IF CutMode = "all" THEN 0..(T - 1)
  ELSE IF CutMode = "classes"
       THEN ((0..16) \cup UNION {{Bound(s, fmt, k) + d : d \in -64..64} : k \in 1..4}
             \cup {(T \div 37) * j : j \in 1..36} \cup {Bound(s, fmt, 1) + ((SecLen[s][fmt][2] \div 23) * j) : j \in 1..22}
             \cup {Bound(s, fmt, 3) + ((SecLen[s][fmt][4] \div 23) * j) : j \in 1..22}
             \* I/O block boundaries (readers and writers move the file in 4 KiB pages, 64 KiB and 1 / 4 MiB buffers)
             \cup UNION {{B * j + d : j \in 1..(T \div B), d \in {-1, 0, 1}} : B \in {1048576, 4194304}}
             \cup {4096 * j : j \in 1..8} \cup {65536 * j : j \in 1..8}) \cap (0..(T - 1))
       ELSE {}
Crash(f, cut) == /\ Len(hist) < MaxOps /\ files[ino[f]].exists /\ files[ino[f]].len = Total(files[ino[f]].sys, files[ino[f]].fmt)
                 /\ cut \in CutCands(files[ino[f]].sys, files[ino[f]].fmt)
                 /\ files' = [files EXCEPT ![ino[f]].len = cut]
                 /\ UNCHANGED <<loaded, ino>> /\ Rec([op |-> "crash", file |-> f, cut |-> cut])
\* UnsafeReadFrom: header, pk, vk, cs — each needs its whole section
SectionsPresent(fl) == Cardinality({k \in 1..4 : Bound(fl.sys, fl.fmt, k) <= fl.len})
ReadResult(fl) ==
  IF ~fl.exists THEN [ok |-> FALSE, sys |-> "none"]
  ELSE LET n == SectionsPresent(fl) IN
       IF n = 4 \/ (ReaderVariant = "ignore-cs-eof" /\ n = 3) \/ (ReaderVariant = "stop-after-vk" /\ n >= 3)
       THEN [ok |-> TRUE, sys |-> fl.sys] ELSE [ok |-> FALSE, sys |-> "none"]
Read(f) == /\ Len(hist) < MaxOps /\ loaded' = ReadResult(files[ino[f]]) /\ UNCHANGED <<files, ino>>
           /\ Rec([op |-> "read", file |-> f, ok |-> loaded'.ok, sys |-> loaded'.sys])
\* convert-to-raw: read, then write the raw format
\* f = g is the in-place conversion (--input and --output name the same file): the source is read completely before the output is created
\* the same holds when the two names are different but refer to one file (hard link, symbolic link)
Convert(f, g) == /\ Len(hist) < MaxOps /\ UNCHANGED ino
                 /\ LET clobbered == ConvertVariant = "create-first" /\ f # g /\ ino[f] = ino[g]
                        r == IF clobbered THEN [ok |-> FALSE, sys |-> "none"] ELSE ReadResult(files[ino[f]]) IN
                      /\ loaded' = r
                      /\ files' = IF r.ok THEN [files EXCEPT ![ino[g]] = [exists |-> TRUE, sys |-> r.sys, fmt |-> "r", len |-> Total(r.sys, "r")]]
                                  ELSE IF clobbered THEN [files EXCEPT ![ino[g]] = [exists |-> TRUE, sys |-> @.sys, fmt |-> @.fmt, len |-> 0]]
                                  ELSE files
                      /\ Rec([op |-> "convert", file |-> f, to |-> g, ok |-> r.ok, sys |-> r.sys])
Next == \/ \E s \in Systems, fmt \in Fmts, f \in Files : Write(s, fmt, f)
        \/ \E f \in Files : Read(f) \/ (\E g \in Files : Convert(f, g))
        \/ \E f \in Files : files[ino[f]].exists /\ \E cut \in CutCands(files[ino[f]].sys, files[ino[f]].fmt) : Crash(f, cut)
        \/ \E f, g \in Files, kind \in {"hard", "sym"} : Link(f, g, kind)
Spec == Init /\ [][Next]_vars

\* C15: a strict prefix never loads
NeverHalfLoaded == \A f \in Files : files[f].exists /\ files[f].len < Total(files[f].sys, files[f].fmt) => ~ReadResult(files[f]).ok
\* C11: a complete file reloads to the system that was written, in either format and through conversion
RoundTrip == \A f \in Files : files[f].exists /\ files[f].len = Total(files[f].sys, files[f].fmt) =>
                ReadResult(files[f]) = [ok |-> TRUE, sys |-> files[f].sys]
\* C11 through aliases: converting a loadable file never destroys it, under whatever names input and output are given
ConvertKeeps == CutMode = "none" => \A f \in Files : files[f].exists => files[f].len = Total(files[f].sys, files[f].fmt)
LastReadFaithful == hist # <<>> /\ hist[Len(hist)].op \in {"read", "convert"} /\ hist[Len(hist)].ok =>
                      \E f \in Files : files[f].exists /\ files[f].sys = loaded.sys
Export == Len(hist) = MaxOps => PrintT("TRACE " \o ToJson(hist))
NoHistView == <<files, ino, loaded>>
====
