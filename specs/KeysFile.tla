---- MODULE KeysFile ----
(***************************************************************************)
(* The proving-system file (prover/marshal.go: WriteTo / WriteRawTo /      *)
(* UnsafeReadFrom / ReadSystemFromFile; main.go: setup, import-setup,      *)
(* convert-to-raw write such files, start / prove / verify / export read   *)
(* them) as a small file-system machine.                                   *)
(*                                                                         *)
(* A file is four sections in fixed order                                  *)
(*     header = depth(4) || batch(4),  proving key,  verifying key,        *)
(*     constraint system (CBOR)                                            *)
(* with the keys in compressed ("c") or raw ("r") point encoding; the      *)
(* reader accepts either encoding.  Contents are abstract (which system's  *)
(* pk / vk / cs a section holds); LENGTHS are concrete, taken from files   *)
(* actually written by the code, so that Crash(f, cut) can cut at EVERY    *)
(* byte offset.  Reader = one step per section, each succeeding only if    *)
(* its whole section is present.                                           *)
(***************************************************************************)
EXTENDS Integers, Sequences, FiniteSets, TLC, Json
CONSTANTS Systems,     \* set of system ids (strings)
          Dim,         \* [Systems -> [mode, depth, batch]]
          SecLen,      \* [Systems -> ["c" | "r" -> <<hdr, pk, vk, cs>>]]   section lengths in bytes
          Files,       \* set of file names
          MaxOps,
          CutMode,     \* "none" | "all" | "classes" : which cut offsets Crash may choose
          ReaderVariant \* "code" | mutants: "ignore-cs-eof", "stop-after-vk"

Fmts == {"c", "r"}
Total(s, f) == SecLen[s][f][1] + SecLen[s][f][2] + SecLen[s][f][3] + SecLen[s][f][4]
RECURSIVE Bound(_, _, _)
Bound(s, f, k) == IF k = 0 THEN 0 ELSE SecLen[s][f][k] + Bound(s, f, k - 1)   \* end offset of section k
NoFile == [exists |-> FALSE]

VARIABLES files,    \* [Files -> NoFile or [exists, sys, fmt, len]]  (len = bytes present)
          loaded,   \* result of the last Read / Convert: [ok, sys] 
          hist
vars == <<files, loaded, hist>>
Init == files = [f \in Files |-> NoFile] /\ loaded = [ok |-> FALSE, sys |-> "none"] /\ hist = <<>>

Rec(op) == hist' = Append(hist, op)
\* setup / import-setup / convert-to-raw: the writer emits the four sections in order
Write(s, fmt, f) == /\ Len(hist) < MaxOps
                    /\ files' = [files EXCEPT ![f] = [exists |-> TRUE, sys |-> s, fmt |-> fmt, len |-> Total(s, fmt)]]
                    /\ UNCHANGED loaded /\ Rec([op |-> "write", sys |-> s, fmt |-> fmt, file |-> f])
\* a crash / interrupted copy leaves any strict prefix
CutCands(s, fmt) ==
  LET T == Total(s, fmt) IN
  IF CutMode = "all" THEN 0..(T - 1)
  ELSE IF CutMode = "classes"
       THEN ((0..16) \cup UNION {{Bound(s, fmt, k) + d : d \in -64..64} : k \in 1..4}
             \cup {(T \div 37) * j : j \in 1..36} \cup {Bound(s, fmt, 1) + ((SecLen[s][fmt][2] \div 23) * j) : j \in 1..22}
             \cup {Bound(s, fmt, 3) + ((SecLen[s][fmt][4] \div 23) * j) : j \in 1..22}
             \* I/O block boundaries (readers and writers move the file in 4 KiB pages, 64 KiB and 1 / 4 MiB buffers)
             \cup UNION {{B * j + d : j \in 1..(T \div B), d \in {-1, 0, 1}} : B \in {1048576, 4194304}}
             \cup {4096 * j : j \in 1..8} \cup {65536 * j : j \in 1..8}) \cap (0..(T - 1))
       ELSE {}
Crash(f, cut) == /\ Len(hist) < MaxOps /\ files[f].exists /\ files[f].len = Total(files[f].sys, files[f].fmt)
                 /\ cut \in CutCands(files[f].sys, files[f].fmt)
                 /\ files' = [files EXCEPT ![f].len = cut]
                 /\ UNCHANGED loaded /\ Rec([op |-> "crash", file |-> f, cut |-> cut])
\* UnsafeReadFrom: header, pk, vk, cs — each needs its whole section
SectionsPresent(fl) == Cardinality({k \in 1..4 : Bound(fl.sys, fl.fmt, k) <= fl.len})
ReadResult(fl) ==
  IF ~fl.exists THEN [ok |-> FALSE, sys |-> "none"]
  ELSE LET n == SectionsPresent(fl) IN
       IF n = 4 \/ (ReaderVariant = "ignore-cs-eof" /\ n = 3) \/ (ReaderVariant = "stop-after-vk" /\ n >= 3)
       THEN [ok |-> TRUE, sys |-> fl.sys] ELSE [ok |-> FALSE, sys |-> "none"]
Read(f) == /\ Len(hist) < MaxOps /\ loaded' = ReadResult(files[f]) /\ UNCHANGED files
           /\ Rec([op |-> "read", file |-> f, ok |-> loaded'.ok, sys |-> loaded'.sys])
\* convert-to-raw: read, then write the raw format
\* f = g is the in-place conversion (--input and --output name the same file): the source is read completely before the output is created
Convert(f, g) == /\ Len(hist) < MaxOps
                 /\ LET r == ReadResult(files[f]) IN
                      /\ loaded' = r
                      /\ files' = IF r.ok THEN [files EXCEPT ![g] = [exists |-> TRUE, sys |-> r.sys, fmt |-> "r", len |-> Total(r.sys, "r")]] ELSE files
                      /\ Rec([op |-> "convert", file |-> f, to |-> g, ok |-> r.ok, sys |-> r.sys])
Next == \/ \E s \in Systems, fmt \in Fmts, f \in Files : Write(s, fmt, f)
        \/ \E f \in Files : Read(f) \/ (\E g \in Files : Convert(f, g))
        \/ \E f \in Files : files[f].exists /\ \E cut \in CutCands(files[f].sys, files[f].fmt) : Crash(f, cut)
Spec == Init /\ [][Next]_vars

\* C15: a strict prefix never loads
NeverHalfLoaded == \A f \in Files : files[f].exists /\ files[f].len < Total(files[f].sys, files[f].fmt) => ~ReadResult(files[f]).ok
\* C11: a complete file reloads to the system that was written, in either format and through conversion
RoundTrip == \A f \in Files : files[f].exists /\ files[f].len = Total(files[f].sys, files[f].fmt) =>
                ReadResult(files[f]) = [ok |-> TRUE, sys |-> files[f].sys]
LastReadFaithful == hist # <<>> /\ hist[Len(hist)].op \in {"read", "convert"} /\ hist[Len(hist)].ok =>
                      \E f \in Files : files[f].exists /\ files[f].sys = loaded.sys
Export == Len(hist) = MaxOps => PrintT("TRACE " \o ToJson(hist))
NoHistView == <<files, loaded>>
====
