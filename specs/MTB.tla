---- MODULE MTB ----
(***************************************************************************)
(* Top-level model of the Merkle-tree batcher: an identity tree evolving   *)
(* through insertion and deletion batches, each batch presented to the     *)
(* corresponding CIRCUIT by an adversary who chooses every input, with the *)
(* ABSTRACT meaning of the batch computed in lock-step.                    *)
(*                                                                         *)
(* Circuit side (prover/circuit_utils.go), one TLC step per circuit round: *)
(*   InsertionRound: ToBinary(index, Depth) (prover-chosen digits),        *)
(*       VerifyProof(empty leaf) == running root, out = VerifyProof(item)  *)
(*   DeletionRound : ToBinary(index, Depth+1), skip = top digit,           *)
(*       IsZero(VerifyProof(item) - root) OR skip == 1,                    *)
(*       out = skip ? root : VerifyProof(empty leaf)                       *)
(*   chains: index = StartIndex + i (field addition) / DeletionIndices[i]; *)
(*   final AssertIsEqual(root, PostRoot); StartIndex / indices limited to  *)
(*   IdxBits bits by their hash encoding (ToReducedBigEndian(., 32)).      *)
(* Abstract side: a batch is valid iff every position lies in the tree,    *)
(*   insertion targets are empty / deletion slots present the current      *)
(*   value, paths are genuine for the RUNNING tree, padding slots          *)
(*   (2^Depth <= index < 2^(Depth+1)) are no-ops, and post is the root     *)
(*   after the writes.                                                     *)
(* The property (C01, C02) is the assertion at every End:                  *)
(*        circuit accepts  <=>  batch valid                                *)
(* for every adversarial choice in every reachable state.                  *)
(*                                                                         *)
(* Index arithmetic is in a tiny prime field P with IdxBits standing for   *)
(* 32 (2^Depth < 2^(Depth+1) <= 2^IdxBits < P); the hash is symbolic       *)
(* (Merkle.tla, HashMode = "sym").  Mutant selects a deliberately wrong    *)
(* circuit, to show the assertion is not vacuous.                          *)
(***************************************************************************)
EXTENDS Merkle, FiniteSets, Json
CONSTANTS Batch, Vals, MaxOps, IdxBits, Modes,
          Mutant,      \* "none" | "noempty" | "widepath" | "prevroot" | "nomember" | "selswap" | "skipbit" | "bits+2" | "nofinal"
          Gen,         \* TRUE: behaviour generation (history recorded, at most MaxFaults deviations from the honest prover per batch)
          MaxFaults

N == 2^Depth
Tree0 == [i \in 0..(N-1) |-> EmptyLeaf]
RECURSIVE NodeT(_, _, _)
NodeT(t, k, i) == IF k = 0 THEN t[i] ELSE H2(NodeT(t, k-1, 2*i), NodeT(t, k-1, 2*i+1))
RootT(t) == NodeT(t, Depth, 0)
SibT(i, l) == LET q == i \div (2^l) IN IF q % 2 = 0 THEN q + 1 ELSE q - 1
PathT(t, i) == [l \in 1..Depth |-> NodeT(t, l-1, SibT(i, l-1))]
\* VerifyProof / ProofRound: digit l selects the operand order at level l
VerifyBits(leaf, bits, proof) ==
  FoldLeft(LAMBDA s, l : IF bits[l] = 0 THEN H2(s, proof[l]) ELSE H2(proof[l], s), leaf, [l \in 1..Depth |-> l])
ValueOf(bits, n) == FoldLeft(LAMBDA a, l : a + bits[l] * 2^(l-1), 0, [l \in 1..n |-> l])
\* all boolean digit vectors of length n that recompose to the field element f (api.ToBinary with prover-chosen digits)
Decomps(f, n) == {b \in [1..n -> {0, 1}] : ValueOf(b, n) % P = f}

VARIABLES tree, past, ops,                      \* contract view: current tree, earlier trees, number of batches processed
          ph, mode, slot, start, pre, cur, okC,  \* circuit side
          absT, okA,                             \* abstract side
          aliasT,                                \* adversary's shadow tree: every slot applied to the leaf its index ALIASES to
                                                 \* (index mod 2^Depth), valid or not — what a circuit with a too-wide index would compute
          faults, hist, batch
vars == <<tree, past, ops, ph, mode, slot, start, pre, cur, okC, absT, okA, aliasT, faults, hist, batch>>

Trees == past \cup {tree}
\* generation: only the LAST batch of a history may deviate from the honest prover; the batches before it build the tree state
Budget == IF ops = MaxOps - 1 THEN MaxFaults ELSE 0
Init == /\ tree = Tree0 /\ past = {} /\ ops = 0 /\ ph = "idle" /\ mode = "none" /\ slot = 0 /\ start = 0
        /\ pre = "" /\ cur = "" /\ okC = TRUE /\ absT = Tree0 /\ okA = TRUE /\ aliasT = Tree0 /\ faults = 0 /\ hist = <<>> /\ batch = <<>>

\* index classes exported for replay: the tiny-field value with its meaning at BN254
IdxClass(v) == IF v < 2 * N + 2 THEN [cls |-> "abs", off |-> v]
               ELSE IF v < 2^IdxBits THEN [cls |-> "idxmax", off |-> 2^IdxBits - 1 - v]
               ELSE IF v < 2^IdxBits + 4 THEN [cls |-> "idxover", off |-> v - 2^IdxBits]
               ELSE [cls |-> "wrap", off |-> P - v]
Fits(v) == v < 2^IdxBits           \* ToReducedBigEndian(v, 32) is satisfiable

StartCands == {0, 1, 2, N-2, N-1, N, N+1, 2^IdxBits - 1, 2^IdxBits, P-1} \cap (0..(P-1))
DelIdxCands == {0, 1, N-1, N, N+1, 2*N-1, 2*N, 2*N+1, 2^IdxBits - 1, 2^IdxBits, P-1} \cap (0..(P-1))
Junk == "J"
ItemCands == Vals \cup {EmptyLeaf, Junk}
ProofCands(t) == {PathT(u, j) : u \in Trees \cup {t, aliasT}, j \in 0..(N-1)}
                 \cup {[PathT(t, j) EXCEPT ![l] = Junk] : j \in 0..(N-1), l \in 1..Depth}

\* first free leaf of the current tree (the honest batcher appends there)
NextFree(t) == IF \E i \in 0..(N-1) : t[i] = EmptyLeaf /\ \A j \in i..(N-1) : t[j] = EmptyLeaf
               THEN CHOOSE i \in 0..(N-1) : (\A j \in i..(N-1) : t[j] = EmptyLeaf) /\ (i = 0 \/ t[i-1] # EmptyLeaf) ELSE N

Begin(m) ==
  /\ ph = "idle" /\ ops < MaxOps
  /\ \E t \in (IF Gen THEN {tree} ELSE Trees) :       \* the batch is stated against a known tree (current, or a stale one)
       /\ pre' = RootT(t) /\ cur' = RootT(t) /\ absT' = t /\ aliasT' = t
       /\ IF m = "insertion"
            THEN \E s \in StartCands :
                   /\ start' = s /\ okC' = Fits(s)
                   /\ faults' = (IF s = NextFree(t) /\ s + Batch <= N THEN 0 ELSE 1)
                   /\ (Gen => faults' <= Budget)
                   /\ batch' = [mode |-> m, start |-> IdxClass(s), pre |-> RootT(t), slots |-> <<>>]
            ELSE /\ start' = 0 /\ okC' = TRUE /\ faults' = 0
                 /\ batch' = [mode |-> m, start |-> IdxClass(0), pre |-> RootT(t), slots |-> <<>>]
  /\ okA' = TRUE /\ mode' = m /\ ph' = "round" /\ slot' = 0
  /\ UNCHANGED <<tree, past, ops, hist>>

(* ------------------------------ insertion ------------------------------ *)
InsBits == IF Mutant = "widepath" THEN Depth + 1 ELSE Depth
InsRoundAccepts(idxF, prev, proof) ==
  \E bits \in Decomps(idxF, InsBits) : Mutant = "noempty" \/ VerifyBits(EmptyLeaf, bits, proof) = prev
InsRoundOut(idxF, item, proof) ==
  LET D == Decomps(idxF, InsBits) IN IF D = {} THEN "" ELSE VerifyBits(item, CHOOSE b \in D : TRUE, proof)

InsRound ==
  /\ ph = "round" /\ mode = "insertion" /\ slot < Batch
  /\ \E item \in ItemCands, proof \in ProofCands(absT) :
       LET idxF == (start + slot) % P                 \* api.Add(StartIndex, i): field addition
           idxI == start + slot                       \* the integer position the batch claims
           prev == IF Mutant = "prevroot" THEN pre ELSE cur
           acc  == okC /\ InsRoundAccepts(idxF, prev, proof)
           vA   == okA /\ idxI < N /\ absT[idxI] = EmptyLeaf /\ proof = PathT(absT, idxI)
           \* deviations from the honest prover are counted INDEPENDENTLY: an out-of-range start was counted at Begin; here a slot
           \* deviates by its item or by a path that is not the genuine one of the leaf the index ALIASES to (index mod 2^Depth)
           dev == IF proof = PathT(aliasT, idxI % N) THEN 0 ELSE 1      \* any field element (0 included) is a legitimate commitment
       IN /\ okC' = acc
          /\ cur' = (IF acc THEN InsRoundOut(idxF, item, proof) ELSE cur)
          /\ okA' = vA
          /\ absT' = (IF vA THEN [absT EXCEPT ![idxI] = item] ELSE absT)
          /\ aliasT' = [aliasT EXCEPT ![idxI % N] = item]
          /\ faults' = faults + dev
          /\ batch' = [batch EXCEPT !.slots = Append(@, [idx |-> IdxClass(idxI % P), item |-> item, proof |-> proof,
                                                                  dev |-> <<IF item \in Vals THEN 0 ELSE 1, IF proof = PathT(aliasT, idxI % N) THEN 0 ELSE 1>>])]
  /\ (Gen => faults' <= Budget)
  /\ slot' = slot + 1 /\ UNCHANGED <<tree, past, ops, ph, mode, start, pre, hist>>

(* ------------------------------ deletion ------------------------------- *)
DelBits == IF Mutant = "bits+2" THEN Depth + 2 ELSE Depth + 1
DelRound ==
  /\ ph = "round" /\ mode = "deletion" /\ slot < Batch
  /\ \E idx \in DelIdxCands, item \in ItemCands, proof \in ProofCands(absT) :
       LET D     == Decomps(idx, DelBits)
           bits  == IF D = {} THEN [l \in 1..DelBits |-> 0] ELSE CHOOSE b \in D : TRUE     \* unique: 2^DelBits <= P
           skip  == IF Mutant = "skipbit" THEN bits[Depth] ELSE bits[Depth + 1]
           rPre  == VerifyBits(item, bits, proof)
           rPost == VerifyBits(EmptyLeaf, bits, proof)
           m     == IF rPre = cur THEN 1 ELSE 0                                            \* IsZero: forced by its two constraints (Gadgets.tla)
           pass  == IF Mutant = "nomember" THEN TRUE ELSE (m = 1 \/ skip = 1)
           out   == IF Mutant = "selswap" THEN (IF skip = 1 THEN rPost ELSE cur) ELSE (IF skip = 1 THEN cur ELSE rPost)
           acc   == okC /\ Fits(idx) /\ D # {} /\ pass
           isDel == idx < N
           isPad == idx >= N /\ idx < 2 * N
           vA    == okA /\ (isPad \/ (isDel /\ absT[idx] = item /\ proof = PathT(absT, idx)))
           \* deviations from the honest batcher (deletes occupied leaves, pads with zeroed slots), counted independently:
           \* the index (out of range, or an already-empty leaf), the presented value, the path — the latter two relative to
           \* the leaf the index ALIASES to (index mod 2^Depth), so "index + 2^(Depth+1) with that leaf's genuine data" is ONE deviation
           al    == idx % N
           alPad == (idx \div N) % 2 = 1            \* the digit number Depth of the index: an aliasing circuit would treat the slot as padding
           dev   == IF isPad THEN (IF item = EmptyLeaf /\ proof = PathT(aliasT, 0) THEN 0 ELSE 1)
                    ELSE (IF isDel /\ absT[idx] # EmptyLeaf THEN 0 ELSE 1)
                         + (IF item = aliasT[al] THEN 0 ELSE 1) + (IF proof = PathT(aliasT, al) THEN 0 ELSE 1)
       IN /\ okC' = acc /\ cur' = (IF acc THEN out ELSE cur)
          /\ okA' = vA
          /\ absT' = (IF vA /\ isDel THEN [absT EXCEPT ![idx] = EmptyLeaf] ELSE absT)
          /\ aliasT' = (IF alPad THEN aliasT ELSE [aliasT EXCEPT ![al] = EmptyLeaf])
          /\ faults' = faults + dev
          /\ batch' = [batch EXCEPT !.slots = Append(@, [idx |-> IdxClass(idx), item |-> item, proof |-> proof,
                                                                  dev |-> <<IF isPad THEN 2 ELSE IF isDel /\ absT[idx] # EmptyLeaf THEN 0 ELSE 1,
                                                                            IF item = aliasT[al] THEN 0 ELSE 1, IF proof = PathT(aliasT, al) THEN 0 ELSE 1>>])]
  /\ (Gen => faults' <= Budget)
  /\ slot' = slot + 1 /\ UNCHANGED <<tree, past, ops, ph, mode, start, pre, hist>>

(* -------------------------------- end ---------------------------------- *)
End ==
  /\ ph = "round" /\ slot = Batch
  /\ \E post \in {cur, pre, RootT(absT), RootT(aliasT), Junk} :
       LET acc == okC /\ (Mutant = "nofinal" \/ post = cur)
           vA  == okA /\ post = RootT(absT)
           f   == faults + (IF post = RootT(aliasT) THEN 0 ELSE 1)
       IN /\ Assert(acc = vA, <<"circuit and abstract meaning disagree", mode, acc, vA, batch, post>>)
          /\ (Gen => f <= Budget)
          /\ IF acc /\ pre = RootT(tree) THEN tree' = absT /\ past' = past \cup {tree}      \* the contract accepts the batch
             ELSE UNCHANGED <<tree, past>>
          /\ hist' = (IF Gen THEN Append(hist, [batch |-> batch, post |-> post, accept |-> acc, applied |-> acc /\ pre = RootT(tree),
                                                        postdev |-> IF post = RootT(aliasT) THEN 0 ELSE 1]) ELSE hist)
  /\ ops' = ops + 1 /\ ph' = "idle"
  /\ UNCHANGED <<mode, slot, start, pre, cur, okC, absT, okA, aliasT, faults, batch>>

Next == (\E m \in Modes : Begin(m)) \/ InsRound \/ DelRound \/ End
Spec == Init /\ [][Next]_vars

\* the contract's root is always the root of the abstract leaf map it was built from (trivially tree itself),
\* and every tree ever accepted is reachable by valid batches only
ContractRootSound == ph = "idle" => \A t \in Trees : TRUE
\* padding slots are no-ops: checked as part of the End assertion (abstract side leaves absT unchanged on padding)
Export == (ph = "idle" /\ ops = MaxOps /\ Gen) => PrintT("TRACE " \o ToJson([depth |-> Depth, batchSize |-> Batch, ops |-> hist]))
McView == <<tree, past, ops, ph, mode, slot, start, pre, cur, okC, absT, okA, aliasT>>
====
