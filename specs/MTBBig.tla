---- MODULE MTBBig ----
(***************************************************************************)
(* MTB.tla at PRODUCTION scale: tree depth up to 32, indices as naturals   *)
(* of arbitrary size (decimal strings, BigField), the real bounds 2^32     *)
(* (hash encoding of indices) and r (field order, wrap-around of           *)
(* StartIndex + i), sparse trees (only written leaves are stored; roots    *)
(* and sibling paths come from Merkle.tla's recomputation over touched     *)
(* subtrees).  Same circuit round relations, same abstract meaning, same   *)
(* lock-step assertion  circuit accepts <=> batch valid  at every End as   *)
(* MTB.tla; the state space is explored by simulation / bounded            *)
(* deviation budgets rather than exhaustively, and every behaviour is      *)
(* exported with concrete index values for replay into the real circuits   *)
(* at depth 16, 20, 31, 32.  The hash stays symbolic (HashMode = "sym").   *)
(***************************************************************************)
EXTENDS Merkle, FiniteSets, Json
CONSTANTS Batch, Vals, MaxOps, Modes, MaxFaults, Mutant

R == BN254R
N == NPow2(Depth)
TwoN == NPow2(Depth + 1)
Two32 == NPow2(32)
Lt(a, b) == FLess(a, b)
Le(a, b) == a = b \/ FLess(a, b)
Plus(a, k) == NAdd(a, NOfInt(k))
Minus(a, k) == FSub(a, NOfInt(k), NPow2(300))      \* a - k for a >= k
Junk == "J"

\* leaf position of an in-range index: its Depth low digits, most significant first
PathOfIdx(i) == LET le == NBitsLE(i, Depth) IN [k \in 1..Depth |-> le[Depth - k + 1]]
InTree(i) == Lt(i, N)
LeafT(t, i) == LeafAt(t, PathOfIdx(i))
WithLeaf(t, i, v) == LET p == PathOfIdx(i) IN IF p \in DOMAIN t THEN [t EXCEPT ![p] = v] ELSE t @@ (p :> v)
RootT(t) == Recompute(t)
PathT(t, i) == PathOf(t, PathOfIdx(i))
\* the leaf an index ALIASES to when only its low Depth digits are used
Alias(i) == FMod(i, N)
\* VerifyProof with LITTLE-endian digits (digit l selects the operand order at level l)
VerifyBits(leaf, bits, proof) ==
  FoldLeft(LAMBDA s, l : IF bits[l] = 0 THEN H2(s, proof[l]) ELSE H2(proof[l], s), leaf, [l \in 1..Depth |-> l])
\* api.ToBinary(f, n): n boolean digits recomposing to f in the field; unique because 2^n <= r
Decomps(f, n) == IF NBitLen(f) <= n THEN {NBitsLE(f, n)} ELSE {}
Fits32(v) == Lt(v, Two32)

VARIABLES tree, past, ops, ph, mode, slot, start, pre, cur, okC, absT, okA, aliasT, faults, hist, batch
vars == <<tree, past, ops, ph, mode, slot, start, pre, cur, okC, absT, okA, aliasT, faults, hist, batch>>
Trees == past \cup {tree}
Budget == IF ops = MaxOps - 1 THEN MaxFaults ELSE 0

Init == /\ tree = <<>> /\ past = {} /\ ops = 0 /\ ph = "idle" /\ mode = "none" /\ slot = 0 /\ start = "0"
        /\ pre = "" /\ cur = "" /\ okC = TRUE /\ absT = <<>> /\ okA = TRUE /\ aliasT = <<>> /\ faults = 0 /\ hist = <<>> /\ batch = <<>>

\* number of leading written leaves (the honest batcher appends right after them); small by construction
RECURSIVE Filled(_, _)
Filled(t, k) == IF LeafT(t, NOfInt(k)) = EmptyLeaf THEN k ELSE Filled(t, k + 1)
NextFree(t) == NOfInt(Filled(t, 0))

StartCands == {"0", "1", "2", Minus(N, 2), Minus(N, 1), N, Plus(N, 1), Minus(Two32, 1), Two32, Plus(Two32, 1), Minus(R, 1), Minus(R, Batch)}
DelIdxCands == {"0", "1", Minus(N, 1), N, Plus(N, 1), Minus(TwoN, 1), TwoN, Plus(TwoN, 1), Minus(Two32, 1), Two32, Minus(R, 1)}
LeafCands(t) == {"0", "1", "2", Minus(N, 1), Minus(N, 2)}
ItemCands == Vals \cup {EmptyLeaf, Junk}
ProofCands(t) == {PathT(u, j) : u \in Trees \cup {t, aliasT}, j \in LeafCands(t)}
                 \cup {[PathT(t, j) EXCEPT ![l] = Junk] : j \in {"0", Minus(N, 1)}, l \in {1, Depth}}

Begin(m) ==
  /\ ph = "idle" /\ ops < MaxOps
  /\ pre' = RootT(tree) /\ cur' = RootT(tree) /\ absT' = tree /\ aliasT' = tree
  /\ IF m = "insertion"
       THEN \E s \in StartCands \cup {NextFree(tree)} :
              /\ start' = s /\ okC' = Fits32(s)
              /\ faults' = (IF s = NextFree(tree) /\ Le(Plus(s, Batch), N) THEN 0 ELSE 1)
              /\ faults' <= Budget
              /\ batch' = [mode |-> m, start |-> s, pre |-> RootT(tree), slots |-> <<>>]
       ELSE /\ start' = "0" /\ okC' = TRUE /\ faults' = 0
            /\ batch' = [mode |-> m, start |-> "0", pre |-> RootT(tree), slots |-> <<>>]
  \* the start index is a uint32 of the parameter document and of the on-chain call: a batch whose start does not fit 32 bits is not a
  \* batch the system can be asked for (matters only for trees deeper than 32 levels, where such positions exist)
  /\ okA' = (m = "deletion" \/ Fits32(start')) /\ mode' = m /\ ph' = "round" /\ slot' = 0
  /\ UNCHANGED <<tree, past, ops, hist>>

InsBits == IF Mutant = "widepath" THEN Depth + 1 ELSE Depth
InsRound ==
  /\ ph = "round" /\ mode = "insertion" /\ slot < Batch
  /\ \E item \in ItemCands, proof \in ProofCands(absT) \cup {PathT(absT, Alias(FMod(Plus(start, slot), R))), PathT(aliasT, Alias(FMod(Plus(start, slot), R)))} :
       LET idxI == Plus(start, slot)                 \* the position the batch claims (a natural)
           idxF == FMod(idxI, R)                     \* api.Add(StartIndex, i): field addition
           D    == Decomps(idxF, InsBits)
           bits == IF D = {} THEN [l \in 1..InsBits |-> 0] ELSE CHOOSE b \in D : TRUE
           acc  == okC /\ D # {} /\ VerifyBits(EmptyLeaf, bits, proof) = cur
           vA   == okA /\ InTree(idxI) /\ LeafT(absT, idxI) = EmptyLeaf /\ proof = PathT(absT, idxI)
           al   == Alias(idxF)
           dev  == IF proof = PathT(aliasT, al) THEN 0 ELSE 1            \* any field element (0 included) is a legitimate commitment
       IN /\ okC' = acc
          /\ cur' = (IF acc THEN VerifyBits(item, bits, proof) ELSE cur)
          /\ okA' = vA
          /\ absT' = (IF vA THEN WithLeaf(absT, idxI, item) ELSE absT)
          /\ aliasT' = WithLeaf(aliasT, al, item)
          /\ faults' = faults + dev /\ faults' <= Budget
          /\ batch' = [batch EXCEPT !.slots = Append(@, [idx |-> idxF, item |-> item, proof |-> proof, dev |-> <<IF item \in Vals THEN 0 ELSE 1, IF proof = PathT(aliasT, al) THEN 0 ELSE 1>>])]
  /\ slot' = slot + 1 /\ UNCHANGED <<tree, past, ops, ph, mode, start, pre, hist>>

DelRound ==
  /\ ph = "round" /\ mode = "deletion" /\ slot < Batch
  /\ \E idx \in DelIdxCands \cup {p2 \in {NOfInt(k) : k \in 0..3} : LeafT(absT, p2) # EmptyLeaf} : \E item \in ItemCands \cup {LeafT(absT, j) : j \in LeafCands(absT)}, proof \in ProofCands(absT) \cup {PathT(absT, Alias(idx)), PathT(aliasT, Alias(idx))} :
       LET D     == Decomps(idx, Depth + 1)
           bits  == IF D = {} THEN [l \in 1..(Depth + 1) |-> 0] ELSE CHOOSE b \in D : TRUE
           skip  == bits[Depth + 1]
           rPre  == VerifyBits(item, bits, proof)
           rPost == VerifyBits(EmptyLeaf, bits, proof)
           m     == IF rPre = cur THEN 1 ELSE 0
           pass  == IF Mutant = "nomember" THEN TRUE ELSE (m = 1 \/ skip = 1)
           out   == IF skip = 1 THEN cur ELSE rPost
           acc   == okC /\ Fits32(idx) /\ D # {} /\ pass
           isDel == InTree(idx)
           isPad == ~isDel /\ Lt(idx, TwoN)
           vA    == okA /\ (isPad \/ (isDel /\ LeafT(absT, idx) = item /\ proof = PathT(absT, idx)))
           al    == Alias(idx)
           alPad == NBitsLE(idx, Depth + 1)[Depth + 1] = 1
           dev3  == IF isPad THEN <<2, IF item = EmptyLeaf /\ proof = PathT(aliasT, "0") THEN 0 ELSE 1, 0>>
                    ELSE <<IF isDel /\ LeafT(absT, idx) # EmptyLeaf THEN 0 ELSE 1, IF item = LeafT(aliasT, al) THEN 0 ELSE 1, IF proof = PathT(aliasT, al) THEN 0 ELSE 1>>
           dev   == IF isPad THEN dev3[2] ELSE dev3[1] + dev3[2] + dev3[3]
       IN /\ okC' = acc /\ cur' = (IF acc THEN out ELSE cur)
          /\ okA' = vA
          /\ absT' = (IF vA /\ isDel THEN WithLeaf(absT, idx, EmptyLeaf) ELSE absT)
          /\ aliasT' = (IF alPad THEN aliasT ELSE WithLeaf(aliasT, al, EmptyLeaf))
          /\ faults' = faults + dev /\ faults' <= Budget
          /\ batch' = [batch EXCEPT !.slots = Append(@, [idx |-> idx, item |-> item, proof |-> proof, dev |-> dev3])]
  /\ slot' = slot + 1 /\ UNCHANGED <<tree, past, ops, ph, mode, start, pre, hist>>

End ==
  /\ ph = "round" /\ slot = Batch
  /\ \E post \in {cur, pre, RootT(absT), RootT(aliasT), Junk} :
       LET acc == okC /\ post = cur
           vA  == okA /\ post = RootT(absT)
           f   == faults + (IF post = RootT(aliasT) THEN 0 ELSE 1)
       IN /\ Assert(acc = vA, <<"circuit and abstract meaning disagree", mode, acc, vA, batch, post>>)
          /\ f <= Budget
          /\ IF acc THEN tree' = absT /\ past' = past \cup {tree} ELSE UNCHANGED <<tree, past>>
          /\ hist' = Append(hist, [batch |-> batch, post |-> post, accept |-> acc, applied |-> acc, postdev |-> IF post = RootT(aliasT) THEN 0 ELSE 1])
  /\ ops' = ops + 1 /\ ph' = "idle"
  /\ UNCHANGED <<mode, slot, start, pre, cur, okC, absT, okA, aliasT, faults, batch>>

Next == (\E m \in Modes : Begin(m)) \/ InsRound \/ DelRound \/ End
Spec == Init /\ [][Next]_vars
Export == (ph = "idle" /\ ops = MaxOps) => PrintT("TRACE " \o ToJson([depth |-> Depth, batchSize |-> Batch, ops |-> hist]))
====
