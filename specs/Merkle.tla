---- MODULE Merkle ----
(***************************************************************************)
(* Binary Merkle trees over a hash H2, in two instantiations selected by   *)
(* HashMode:                                                               *)
(*  "sym"   : H2 is a free constructor over canonical STRINGS              *)
(*            ("H(a,b)"), i.e. collision-freeness is an explicit modelling *)
(*            assumption; the empty subtree of height k is the atom "E<k>" *)
(*            and the rewrite H(E<k>,E<k>) = E<k+1> is applied at           *)
(*            construction, so untouched subtrees stay atoms at any depth; *)
(*            the empty leaf is "E0" (it denotes the field element 0).     *)
(*  "bn254" : H2 is Poseidon over the BN254 scalar field (Poseidon.tla),   *)
(*            values are decimal strings, the empty leaf is "0".           *)
(* Leaf positions are PATHS: sequences of Depth bits, most significant     *)
(* first (TLC integers cannot hold 32-bit indices).                        *)
(***************************************************************************)
EXTENDS Integers, Sequences, SequencesExt, TLC, Poseidon
CONSTANTS HashMode, Depth

Sym == HashMode = "sym"
E(k) == "E" \o ToString(k)
IsE(a) == \E k \in 0..Depth : a = E(k)
EIndex(a) == CHOOSE k \in 0..Depth : a = E(k)
SymH(a, b) == IF a = b /\ IsE(a) /\ EIndex(a) < Depth THEN E(EIndex(a) + 1) ELSE "H(" \o a \o "," \o b \o ")"
H2(a, b) == IF Sym THEN SymH(a, b) ELSE Poseidon2(a, b)

EmptyLeaf == IF Sym THEN E(0) ELSE "0"
\* value of an empty subtree of height k
EmptyTab == TLCEval(FoldLeft(LAMBDA acc, k : Append(acc, H2(acc[k], acc[k])), <<EmptyLeaf>>, [k \in 1..Depth |-> k]))
Empty(k) == IF Sym THEN E(k) ELSE EmptyTab[k + 1]

\* direction bit used at height `dep` (1..Depth) for the leaf path ib: bit number dep-1 of the index
DirAt(ib, dep) == ib[Depth - dep + 1]
\* root obtained from a leaf value and its sibling path (proof[dep] = sibling at height dep-1, leaf level first)
RECURSIVE Climb(_, _, _, _)
Climb(val, ib, proof, dep) ==
  IF dep > Depth THEN val
  ELSE Climb(IF DirAt(ib, dep) = 0 THEN H2(val, proof[dep]) ELSE H2(proof[dep], val), ib, proof, dep + 1)
RootFrom(leaf, ib, proof) == Climb(leaf, ib, proof, 1)

\* complete recomputation from a sparse leaf map (function: path -> value), recursing only into touched subtrees
RECURSIVE Sub(_, _, _)
Sub(leaves, prefix, dep) ==
  IF \A p \in DOMAIN leaves : SubSeq(p, 1, Len(prefix)) # prefix THEN Empty(dep)
  ELSE IF dep = 0 THEN leaves[prefix]
  ELSE H2(Sub(leaves, prefix \o <<0>>, dep - 1), Sub(leaves, prefix \o <<1>>, dep - 1))
Recompute(leaves) == Sub(leaves, <<>>, Depth)
LeafAt(leaves, p) == IF p \in DOMAIN leaves THEN leaves[p] ELSE EmptyLeaf
\* genuine sibling path of leaf p in the tree denoted by the leaf map
PathOf(leaves, p) == [dep \in 1..Depth |-> LET pre == SubSeq(p, 1, Depth - dep) IN
                         Sub(leaves, pre \o <<1 - DirAt(p, dep)>>, dep - 1)]
AllPaths == [1..Depth -> {0, 1}]
\* integer <-> path (small depths only)
PathOfInt(i) == [k \in 1..Depth |-> (i \div (2^(Depth - k))) % 2]
IntOfPath(p) == FoldLeft(LAMBDA acc, k : 2 * acc + p[k], 0, [k \in 1..Depth |-> k])
====
