---- MODULE NumGrammar ----
(***************************************************************************)
(* The numeral grammar of the parameter / proof JSON codecs               *)
(* (prover/marshal.go: fromHex = big.Int.SetString(s, 0) with explicit     *)
(* failure) as a CHARACTER MACHINE: one step per character, then Finish.   *)
(* It transcribes Go's base-0 integer-literal scanner: optional sign;      *)
(* prefixes 0b/0B, 0o/0O, 0x/0X, or a leading 0 meaning octal; digits      *)
(* valid for the base; '_' only between a prefix/digit and a digit; at     *)
(* least one digit; nothing else (no white space, '.', exponent).          *)
(*                                                                         *)
(* The verdict the CODE must deliver is three-valued, so that the check    *)
(* never demands more than the property states:                            *)
(*   "must-accept" : 0x-hexadecimal, any case, leading zeros allowed       *)
(*                   (the notation the property names and the encoder      *)
(*                   emits) — must decode to Value;                        *)
(*   "must-reject" : strings that are numbers in no integer notation       *)
(*                   (empty, bare sign or prefix, a character outside the  *)
(*                   radix, white space, '.', misplaced '_' ...);          *)
(*   "either"      : what the grammar accepts beyond 0x-hex (decimal,      *)
(*                   0b, 0o, octal, '_' separators, signs) and digit       *)
(*                   strings the grammar rejects only for their radix      *)
(*                   ("09"): if the code accepts, the value must be the    *)
(*                   one the grammar denotes (when it denotes one).        *)
(***************************************************************************)
EXTENDS Integers, Sequences, TLC, Json
CONSTANTS Alphabet, MaxLen,
          Literals    \* {} = enumerate every string up to MaxLen; otherwise run exactly these character sequences

DigitVal(ch) == CASE ch = "0" -> 0 [] ch = "1" -> 1 [] ch = "2" -> 2 [] ch = "7" -> 7 [] ch = "8" -> 8 [] ch = "9" -> 9
                  [] ch \in {"a", "A"} -> 10 [] ch \in {"b", "B"} -> 11 [] ch \in {"c", "C"} -> 12 [] ch \in {"d", "D"} -> 13
                  [] ch = "3" -> 3 [] ch = "4" -> 4 [] ch = "5" -> 5 [] ch = "6" -> 6
                  [] ch \in {"e", "E"} -> 14 [] ch \in {"f", "F"} -> 15 [] ch \in {"g", "G"} -> 16 [] ch \in {"o", "O"} -> 24
                  [] ch \in {"x", "X"} -> 33 [] ch \in {"z", "Z"} -> 35 [] OTHER -> 99
IsAlnum(ch) == DigitVal(ch) < 99

VARIABLES str,     \* characters consumed so far
          st,      \* "start" | "signed" | "zero" (a leading 0 was read) | "pfx" (base letter read) | "dig" | "us" (underscore read) | "rej" | "done"
          base, cnt, val, neg, sawUS, plainHex, result, target
vars == <<str, st, base, cnt, val, neg, sawUS, plainHex, result, target>>

Init == /\ str = <<>> /\ st = "start" /\ base = 10 /\ cnt = 0 /\ val = 0 /\ neg = FALSE /\ sawUS = FALSE /\ plainHex = FALSE
        /\ result = [kind |-> "pending"]
        /\ target \in (IF Literals = {} THEN {<<>>} ELSE Literals)

Reject == st' = "rej" /\ UNCHANGED <<base, cnt, val, neg, sawUS, plainHex>>
Digit(ch) == /\ DigitVal(ch) < base /\ st' = "dig" /\ cnt' = cnt + 1 /\ val' = val * base + DigitVal(ch)
             /\ UNCHANGED <<base, neg, sawUS, plainHex>>

Step(ch) ==
  /\ st # "done"
  /\ IF Literals = {} THEN Len(str) < MaxLen ELSE Len(str) < Len(target) /\ ch = target[Len(str) + 1]
  /\ str' = Append(str, ch)
  /\ result' = result /\ target' = target
  /\ CASE st = "rej" -> Reject                        \* a refused prefix stays refused whatever follows
       [] st = "start" /\ ch \in {"+", "-"} ->
            st' = "signed" /\ neg' = (ch = "-") /\ UNCHANGED <<base, cnt, val, sawUS, plainHex>>
       [] st \in {"start", "signed"} /\ ch = "0" ->
            st' = "zero" /\ cnt' = 1 /\ UNCHANGED <<base, val, neg, sawUS, plainHex>>
       [] st \in {"start", "signed"} /\ ch # "0" ->
            IF DigitVal(ch) < 10 THEN Digit(ch) ELSE Reject
       [] st = "zero" /\ ch \in {"b", "B"} -> st' = "pfx" /\ base' = 2 /\ cnt' = 0 /\ UNCHANGED <<val, neg, sawUS, plainHex>>
       [] st = "zero" /\ ch \in {"o", "O"} -> st' = "pfx" /\ base' = 8 /\ cnt' = 0 /\ UNCHANGED <<val, neg, sawUS, plainHex>>
       [] st = "zero" /\ ch \in {"x", "X"} -> st' = "pfx" /\ base' = 16 /\ cnt' = 0 /\ plainHex' = (st = "zero" /\ ~neg /\ Len(str) = 1)
                                               /\ UNCHANGED <<val, neg, sawUS>>
       [] st = "zero" /\ ch = "_" -> st' = "us" /\ base' = 8 /\ cnt' = 0 /\ sawUS' = TRUE /\ UNCHANGED <<val, neg, plainHex>>
       [] st = "zero" /\ ch \notin {"b", "B", "o", "O", "x", "X", "_"} ->      \* a leading 0 followed by anything else: octal
            IF DigitVal(ch) < 8 THEN st' = "dig" /\ base' = 8 /\ cnt' = 1 /\ val' = DigitVal(ch) /\ UNCHANGED <<neg, sawUS, plainHex>>
            ELSE st' = "rej" /\ base' = 8 /\ UNCHANGED <<cnt, val, neg, sawUS, plainHex>>
       [] st \in {"pfx", "dig"} /\ ch = "_" -> st' = "us" /\ sawUS' = TRUE /\ UNCHANGED <<base, cnt, val, neg, plainHex>>
       [] st \in {"pfx", "dig", "us"} /\ ch # "_" -> IF DigitVal(ch) < base THEN Digit(ch) ELSE Reject
       [] st = "us" /\ ch = "_" -> Reject
       [] OTHER -> Reject

\* end of string: a number needs at least one digit and must not end in '_'
Finish ==
  /\ st \notin {"done"} /\ st' = "done" /\ str' = str /\ target' = target
  /\ (Literals # {} => str = target)
  /\ LET okGo == st \in {"dig", "zero"} \/ (st = "pfx" /\ FALSE)
         v == IF neg THEN -val ELSE val
         allDigits == str # <<>> /\ \A i \in 1..Len(str) : DigitVal(str[i]) < 10 \/ (i = 1 /\ str[i] \in {"+", "-"})
         hasDigit == \E i \in 1..Len(str) : DigitVal(str[i]) < 10
         kind == IF okGo THEN (IF plainHex /\ ~sawUS THEN "must-accept" ELSE "either")
                 ELSE IF allDigits /\ hasDigit THEN "either"        \* "09": a decimal numeral the base-0 grammar refuses for its radix
                 ELSE "must-reject"
     IN result' = [kind |-> kind, grammarAccepts |-> okGo, value |-> IF okGo THEN v ELSE 0]
  /\ UNCHANGED <<base, cnt, val, neg, sawUS, plainHex>>

Next == (\E ch \in Alphabet : Step(ch)) \/ Finish
Spec == Init /\ [][Next]_vars

\* sanity: the encoder's notation is always in the must-accept class and denotes its value
EncoderNotation == st = "done" /\ result.kind = "must-accept" => result.grammarAccepts /\ result.value >= 0
Concat(s) == IF s = <<>> THEN "" ELSE LET RECURSIVE J(_) J(k) == IF k = 0 THEN "" ELSE J(k - 1) \o s[k] IN J(Len(s))
Export == st = "done" => PrintT("TRACE " \o ToJson([s |-> Concat(str), kind |-> result.kind, accepts |-> result.grammarAccepts, value |-> result.value]))
====
