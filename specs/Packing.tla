---- MODULE Packing ----
(***************************************************************************)
(* The public input of both circuits: Keccak-256, reduced modulo the BN254 *)
(* scalar-field order r, of the byte string the on-chain verifier hashes   *)
(*   insertion: uint32 startIndex || uint256 preRoot || uint256 postRoot   *)
(*              || uint256 commitment_0 || ...                             *)
(*   deletion : uint32 index_0 || ... || uint256 preRoot || uint256 postRoot*)
(* all big-endian (abi.encodePacked).  OnChain* is written from that       *)
(* definition alone.  Circuit* transcribes the path the circuit takes:     *)
(* ToReducedBigEndian per field (little-endian digits, 8-bit group         *)
(* reversal), concatenation, Keccak consuming bits LSB-first within bytes, *)
(* FromBinaryBigEndian of the digest.  Naturals are decimal strings        *)
(* (BigField); a "field" of the packing is a record [w |-> bits, v |-> n]. *)
(***************************************************************************)
EXTENDS Integers, Sequences, SequencesExt, TLC, BigField, Keccak

R == "21888242871839275222246405745257275088548364400416034343698204186575808495617"

\* ---------- the on-chain definition: bytes ----------
BytesBE(v, nbytes) == LET le == NBitsLE(v, 8 * nbytes)
                      IN [g \in 1..nbytes |-> LET o == 8 * (nbytes - g) IN
                            le[o+1] + 2*le[o+2] + 4*le[o+3] + 8*le[o+4] + 16*le[o+5] + 32*le[o+6] + 64*le[o+7] + 128*le[o+8]]
Concat(seqs) == FoldLeft(LAMBDA acc, s : acc \o s, <<>>, seqs)
InsFields(start, pre, post, ids) == <<[w |-> 32, v |-> start], [w |-> 256, v |-> pre], [w |-> 256, v |-> post]>>
                                    \o [k \in 1..Len(ids) |-> [w |-> 256, v |-> ids[k]]]
DelFields(idxs, pre, post) == [k \in 1..Len(idxs) |-> [w |-> 32, v |-> idxs[k]]] \o <<[w |-> 256, v |-> pre], [w |-> 256, v |-> post]>>
OnChainBytes(fields) == Concat([k \in 1..Len(fields) |-> BytesBE(fields[k].v, fields[k].w \div 8)])
\* uint256(keccak256(bytes)) % r
DigestToNat(d) == LET bytes == BytesOfBits(d)   \* 32 bytes, bytes[1] most significant
                      le == Concat([g \in 1..32 |-> SubSeq(d, 8 * (32 - g) + 1, 8 * (32 - g) + 8)])
                  IN NFromBitsLE(le)
OnChainHash(fields) == FMod(DigestToNat(Keccak256(BitsOfBytes(OnChainBytes(fields)))), R)

\* ---------- the circuit's path: bits ----------
\* ToReducedBigEndian: little-endian digits of the UNIQUE representative below r, 8-bit groups reversed
GroupReverse(bits) == LET n == Len(bits) IN [k \in 1..n |-> LET g == (k - 1) \div 8  j == (k - 1) % 8 IN bits[(n - 8 - 8 * g) + j + 1]]
ToReducedBE(v, w) == GroupReverse(NBitsLE(v, w))
CircuitBits(fields) == Concat([k \in 1..Len(fields) |-> ToReducedBE(fields[k].v, fields[k].w)])
\* FromBinaryBigEndian: group reversal, then sum of bit_i 2^i, modulo r
CircuitHash(fields) == FMod(NFromBitsLE(GroupReverse(Keccak256(CircuitBits(fields)))), R)

\* a value enters the packing iff it fits its width and (256-bit fields) is below r
FieldOk(f) == NBitLen(f.v) <= f.w /\ FLess(f.v, R)
====
