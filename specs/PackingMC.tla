---- MODULE PackingMC ----
(***************************************************************************)
(* C08 / C03: for every (mode, batch size, value-class vector) the bit     *)
(* string the circuit hashes is the on-chain byte string, and the circuit's *)
(* recomposed hash is uint256(keccak256(bytes)) mod r.  One behaviour =     *)
(* Choose (Init) -> Pack -> Hash; exported with the concrete values and the *)
(* hash for replay into ComputeInputHashInsertion / ...Deletion and into    *)
(* the compiled circuits.                                                   *)
(***************************************************************************)
EXTENDS Packing, Json
CONSTANTS Cases     \* set of records [mode, start (ins), idxs (del), pre, post, ids] with decimal-string values
VARIABLES c, fields, bytes, hash, phase
vars == <<c, fields, bytes, hash, phase>>
Init == c \in Cases /\ fields = <<>> /\ bytes = <<>> /\ hash = "" /\ phase = "choose"
Pack == /\ phase = "choose" /\ phase' = "packed"
        /\ fields' = (IF c.mode = "insertion" THEN InsFields(c.start, c.pre, c.post, c.ids) ELSE DelFields(c.idxs, c.pre, c.post))
        /\ bytes' = OnChainBytes(fields')
        /\ UNCHANGED <<c, hash>>
Hash == /\ phase = "packed" /\ phase' = "hashed"
        /\ hash' = OnChainHash(fields)
        /\ UNCHANGED <<c, fields, bytes>>
Next == Pack \/ Hash
Spec == Init /\ [][Next]_vars
\* the circuit feeds Keccak exactly the on-chain bytes (bit order: LSB first within each byte)
PackingAgrees == phase # "choose" => CircuitBits(fields) = BitsOfBytes(bytes)
Widths == phase # "choose" => Len(bytes) = (IF c.mode = "insertion" THEN 68 + 32 * Len(c.ids) ELSE 64 + 4 * Len(c.idxs))
\* and recomposes the digest to the same number
HashAgrees == phase = "hashed" => hash = CircuitHash(fields)
\* every value enters the packing in its unique reduced form: a field holding v + k*r (or an index >= 2^32) is NOT an acceptable encoding
AllFieldsOk == \A k \in 1..Len(fields) : FieldOk(fields[k])
\* the packing is injective (fixed widths): different field vectors give different byte strings, hence (Keccak collision-free)
\* different public inputs
BytesInjective == phase = "packed" => \A d \in Cases :
     LET fd == IF d.mode = "insertion" THEN InsFields(d.start, d.pre, d.post, d.ids) ELSE DelFields(d.idxs, d.pre, d.post)
     IN (d.mode = c.mode /\ fd # fields) => OnChainBytes(fd) # bytes
Export == phase = "hashed" => PrintT("TRACE " \o ToJson([c |-> c, hash |-> hash, nbytes |-> Len(bytes), ok |-> AllFieldsOk]))
====
