---- MODULE ParamCodec ----
(***************************************************************************)
(* JSON codec of the prover parameters (prover/marshal.go, Insertion- and  *)
(* DeletionParameters Marshal/UnmarshalJSON) as a three-phase machine      *)
(*      params --Encode--> document --Decode--> params'                    *)
(* over shape x magnitude classes: every field element is rendered as      *)
(* "0x" + minimal lower-case hexadecimal, indices as JSON numbers, arrays   *)
(* keep their dimensions (empty and ragged ones included).  Numerals are   *)
(* decoded by the NumGrammar machine's must-accept class (0x-hex).         *)
(* Values are decimal strings (BigField).                                  *)
(***************************************************************************)
EXTENDS Integers, Sequences, TLC, BigField, Json
CONSTANTS Shapes,      \* set of records [mode, batch, rows] : rows = sequence of row lengths of merkleProofs (ragged allowed)
          Mags         \* sequence of magnitude-class values (decimal strings), cycled through the value positions

VARIABLES phase, p, doc, q
vars == <<phase, p, doc, q>>

Mag(k) == Mags[((k - 1) % Len(Mags)) + 1]
\* the parameter set of a shape: value position k takes magnitude class k (cyclically), shifted by `rot`
Params(sh, rot) ==
  [mode |-> sh.mode, hash |-> Mag(rot + 1), pre |-> Mag(rot + 2), post |-> Mag(rot + 3),
   start |-> IF rot % 2 = 0 THEN "0" ELSE "4294967295",
   idxs |-> [i \in 1..(IF sh.mode = "deletion" THEN sh.batch ELSE 0) |-> IF (i + rot) % 2 = 0 THEN "4294967295" ELSE "0"],
   ids |-> [i \in 1..sh.batch |-> Mag(rot + 3 + i)],
   proofs |-> [i \in 1..Len(sh.rows) |-> [j \in 1..sh.rows[i] |-> Mag(rot + 10 * i + j)]]]

Init == /\ phase = "params" /\ \E sh \in Shapes, rot \in 0..(Len(Mags) - 1) : p = Params(sh, rot)
        /\ doc = <<>> /\ q = <<>>
Encode == /\ phase = "params" /\ phase' = "doc"
          /\ doc' = [inputHash |-> NHex(p.hash), preRoot |-> NHex(p.pre), postRoot |-> NHex(p.post),
                     identityCommitments |-> [i \in 1..Len(p.ids) |-> NHex(p.ids[i])],
                     merkleProofs |-> [i \in 1..Len(p.proofs) |-> [j \in 1..Len(p.proofs[i]) |-> NHex(p.proofs[i][j])]]]
          /\ UNCHANGED <<p, q>>
Decode == /\ phase = "doc" /\ phase' = "decoded"
          /\ q' = [mode |-> p.mode, hash |-> NFromHex(doc.inputHash), pre |-> NFromHex(doc.preRoot), post |-> NFromHex(doc.postRoot),
                   start |-> p.start, idxs |-> p.idxs,
                   ids |-> [i \in 1..Len(doc.identityCommitments) |-> NFromHex(doc.identityCommitments[i])],
                   proofs |-> [i \in 1..Len(doc.merkleProofs) |-> [j \in 1..Len(doc.merkleProofs[i]) |-> NFromHex(doc.merkleProofs[i][j])]]]
          /\ UNCHANGED <<p, doc>>
Next == Encode \/ Decode
Spec == Init /\ [][Next]_vars
RoundTrip == phase = "decoded" => q = p
Export == phase = "decoded" => PrintT("TRACE " \o ToJson([p |-> p, doc |-> doc]))
====
