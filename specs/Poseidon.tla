---- MODULE Poseidon ----
(***************************************************************************)
(* The Poseidon permutation and sponge hash used by Semaphore trees        *)
(* (x^5 S-box, RF = 8 full rounds, RP = 56 (t=2) / 57 (t=3) partial        *)
(* rounds, first state element 0, output = first state element), written   *)
(* as a ROUND MACHINE: one application of RoundStep per round, which is    *)
(* the grain of prover/poseidon/poseidon.go (fullRound / halfRound         *)
(* gadgets).                                                               *)
(*                                                                         *)
(* Two instantiations of the same definitions, selected by FieldMode:      *)
(*   "bn254" : field elements are decimal strings, arithmetic by the       *)
(*             BigField Java override, constants of PoseidonBN254.tla;     *)
(*   "small" : field elements are TLC integers mod the tiny prime P,       *)
(*             constants = the BN254 tables reduced mod P (this is what    *)
(*             gnark's test engine computes when the Go gadget is run      *)
(*             over the modulus P).                                        *)
(***************************************************************************)
EXTENDS Naturals, Sequences, SequencesExt, TLC, BigField, PoseidonBN254
CONSTANTS FieldMode, P

Big == FieldMode = "bn254"
PS == NOfInt(P)
Zero == IF Big THEN "0" ELSE 0
Add(a, b) == IF Big THEN FAdd(a, b, BN254R) ELSE (a + b) % P
Mul(a, b) == IF Big THEN FMul(a, b, BN254R) ELSE (a * b) % P
\* a table constant (decimal string) as a field element of the selected field
K(c) == IF Big THEN c ELSE NToInt(FMod(c, PS))

RF == 8
RPof(t) == IF t = 2 THEN 56 ELSE 57
MDSof(t) == IF t = 2 THEN MDS_2 ELSE MDS_3
ARKof(t) == IF t = 2 THEN CONSTANTS_2 ELSE CONSTANTS_3
NRounds(t) == RF + RPof(t)

Sbox(x) == LET x2 == Mul(x, x) x4 == Mul(x2, x2) IN Mul(x, x4)
Ark(st, c) == [i \in 1..Len(st) |-> Add(st[i], K(c[i]))]
\* out[i] = SUM_j st[j] * M[i][j]   (row i of the matrix times the state)
Mix(M, st) == [i \in 1..Len(st) |->
                 FoldLeft(LAMBDA acc, j : Add(acc, Mul(st[j], K(M[i][j]))), Zero, [j \in 1..Len(st) |-> j])]
IsFull(t, r) == r <= RF \div 2 \/ r > RF \div 2 + RPof(t)       \* rounds are numbered 1..NRounds(t)

\* One round: add round constants, S-box on all elements (full) or on element 1 only
\* (partial), then the MDS mix.
RoundStep(st, r) ==
  LET t == Len(st)
      a == Ark(st, ARKof(t)[r])
      s == IF IsFull(t, r) THEN [i \in 1..t |-> Sbox(a[i])]
                           ELSE [i \in 1..t |-> IF i = 1 THEN Sbox(a[1]) ELSE a[i]]
  IN TLCEval(Mix(MDSof(t), s))

Perm(st0) == FoldLeft(LAMBDA st, r : RoundStep(st, r), st0, [r \in 1..NRounds(Len(st0)) |-> r])
Poseidon1(a)    == Perm(<<Zero, a>>)[1]
Poseidon2(a, b) == Perm(<<Zero, a, b>>)[1]
====
