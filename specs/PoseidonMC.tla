---- MODULE PoseidonMC ----
(***************************************************************************)
(* Round machine for C05 + behaviour export.  A behaviour is: pick the     *)
(* inputs of a call (Begin), run NRounds round steps, Finish.  A session   *)
(* makes up to MaxCalls calls one after another in the same "circuit";     *)
(* the invariant CallsIndependent says each call's output depends only on  *)
(* its own inputs (the Go gadget mutates its input slice in place, so      *)
(* aliasing between calls is the realistic slip).                          *)
(***************************************************************************)
EXTENDS Poseidon, Json, FiniteSets
CONSTANTS Inputs1, Inputs2, MaxCalls   \* candidate singleton inputs, candidate pairs (as <<a,b>>), session length
VARIABLES st, round, calls, cur
vars == <<st, round, calls, cur>>

Init == st = <<>> /\ round = 0 /\ calls = <<>> /\ cur = <<>>
Begin == /\ round = 0 /\ Len(calls) < MaxCalls
         /\ \E inp \in ({<<a>> : a \in Inputs1} \cup Inputs2) :
               /\ cur' = inp /\ st' = <<Zero>> \o inp
         /\ round' = 1 /\ UNCHANGED calls
Round == /\ round >= 1 /\ round <= NRounds(Len(st))
         /\ st' = RoundStep(st, round)
         /\ round' = round + 1 /\ UNCHANGED <<calls, cur>>
Finish == /\ round >= 1 /\ round = NRounds(Len(st)) + 1
          /\ calls' = Append(calls, [in |-> cur, out |-> st[1]])
          /\ round' = 0 /\ st' = <<>> /\ cur' = <<>>
Next == Begin \/ Round \/ Finish
Spec == Init /\ [][Next]_vars

\* the machine computes the function
MachineIsFunction == \A i \in 1..Len(calls) :
   calls[i].out = (IF Len(calls[i].in) = 1 THEN Poseidon1(calls[i].in[1]) ELSE Poseidon2(calls[i].in[1], calls[i].in[2]))
\* equal inputs give equal outputs wherever they occur in the session
CallsIndependent == \A i, j \in 1..Len(calls) : calls[i].in = calls[j].in => calls[i].out = calls[j].out
Export == (round = 0 /\ Len(calls) = MaxCalls) => PrintT("TRACE " \o ToJson(calls))
====
