---- MODULE PoseidonMC ----
(***************************************************************************)
(* Round machine for C05 + behaviour export.  A behaviour is: pick the     *)
(* inputs of a call (Begin), run NRounds round steps, Finish.  A session   *)
(* makes up to MaxCalls calls one after another in the same "circuit";     *)
(* the invariant CallsIndependent says each call's output depends only on  *)
(* its own inputs (the Go gadget mutates its input slice in place, so      *)
(* aliasing between calls is the realistic slip).                          *)
(***************************************************************************)
EXTENDS Poseidon, Json, FiniteSets
CONSTANTS Inputs1, Inputs2, MaxCalls,  \* candidate singleton inputs, candidate pairs (as <<a,b>>), session length
          Chain                        \* TRUE: a call may also take the OUTPUT WIRE of an earlier call as an input (a digest fed into
                                       \* the next hash and used again, as along a Merkle path or an empty-subtree chain)
VARIABLES st, round, calls, cur
vars == <<st, round, calls, cur>>

Init == st = <<>> /\ round = 0 /\ calls = <<>> /\ cur = <<>>
\* an input is either a value or a reference <<"ref", k>> to the output of call k
Val(x) == IF Chain /\ Len(x) = 2 /\ x[1] = "ref" THEN calls[x[2]].out ELSE x[1]
Refs == IF Chain THEN {<<"ref", k>> : k \in 1..Len(calls)} ELSE {}
Start(c, state) == cur' = c /\ st' = state
Begin == /\ round = 0 /\ Len(calls) < MaxCalls
         /\ \/ \E inp \in ({<<a>> : a \in Inputs1} \cup Inputs2) : Start([i \in 1..Len(inp) |-> <<inp[i]>>], <<Zero>> \o inp)
            \/ \E r1 \in Refs : Start(<<r1>>, <<Zero, Val(r1)>>)                                       \* H1(digest)
            \/ \E r1 \in Refs, r2 \in Refs : Start(<<r1, r2>>, <<Zero, Val(r1), Val(r2)>>)             \* H2(digest, digest)
            \/ \E r1 \in Refs, a \in Inputs1 : Start(<<r1, <<a>>>>, <<Zero, Val(r1), a>>)              \* H2(digest, value)
            \/ \E r1 \in Refs, a \in Inputs1 : Start(<<<<a>>, r1>>, <<Zero, a, Val(r1)>>)              \* H2(value, digest)
         /\ round' = 1 /\ UNCHANGED calls
Round == /\ round >= 1 /\ round <= NRounds(Len(st))
         /\ st' = RoundStep(st, round)
         /\ round' = round + 1 /\ UNCHANGED <<calls, cur>>
Finish == /\ round >= 1 /\ round = NRounds(Len(st)) + 1
          /\ calls' = Append(calls, [in |-> [i \in 1..Len(cur) |-> Val(cur[i])], wires |-> cur, out |-> st[1]])
          /\ round' = 0 /\ st' = <<>> /\ cur' = <<>>
Next == Begin \/ Round \/ Finish
Spec == Init /\ [][Next]_vars

\* the machine computes the function
MachineIsFunction == \A i \in 1..Len(calls) :
   calls[i].out = (IF Len(calls[i].in) = 1 THEN Poseidon1(calls[i].in[1]) ELSE Poseidon2(calls[i].in[1], calls[i].in[2]))
\* equal inputs give equal outputs wherever they occur in the session
CallsIndependent == \A i, j \in 1..Len(calls) : calls[i].in = calls[j].in => calls[i].out = calls[j].out
Export == (round = 0 /\ Len(calls) = MaxCalls) => PrintT("TRACE " \o ToJson(calls))
====
