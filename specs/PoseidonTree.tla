---- MODULE PoseidonTree ----
(***************************************************************************)
(* The off-chain tree of poseidon_tree/poseidon_tree.go as a state machine *)
(* with one action, Update(path, value), next to its abstract meaning.     *)
(*                                                                         *)
(* Implementation-shaped state: `nodes`, a function from node positions    *)
(* (path prefixes from the root) to records [kind, val] — the materialised *)
(* part of the persistent structure: "F" full nodes cache their hash,      *)
(* "E" empty nodes take their value from the shared empty-subtree table.   *)
(* Update = withValue (rebuild and rehash the path top-down/bottom-up,     *)
(* materialising the empty sibling whenever an empty node is split) then   *)
(* writeProof (collect the siblings, leaf level first).                    *)
(* Abstract state: `leaves`, the written leaves.                           *)
(***************************************************************************)
EXTENDS Merkle, Json
CONSTANTS Vals,        \* values written to leaves (strings; EmptyLeaf may be among them)
          IndexCands,  \* {} = all paths, or a set of candidate paths
          MaxOps
VARIABLES nodes, leaves, hist, last
vars == <<nodes, leaves, hist, last>>

Cands == IF IndexCands = {} THEN AllPaths ELSE IndexCands

Init == /\ nodes = (<<>> :> [kind |-> "E", val |-> Empty(Depth)])
        /\ leaves = <<>> /\ hist = <<>>
        /\ last = [prevRoot |-> Empty(Depth), prevLeaf |-> EmptyLeaf, path |-> <<>>, value |-> EmptyLeaf, proof |-> <<>>]

NodeVal(ns, pos, dep) == IF pos \in DOMAIN ns THEN ns[pos].val ELSE Empty(dep)
Prefix(ib, dep) == SubSeq(ib, 1, Depth - dep)          \* position of the path's node at height dep

\* withValue: new materialised structure after writing v at path ib
WithValue(ns, ib, v) ==
  LET \* bottom-up values along the path; the sibling at height dep-1 is read from the OLD structure
      Sib(dep) == NodeVal(ns, Prefix(ib, dep) \o <<1 - DirAt(ib, dep)>>, dep - 1)
      vals == FoldLeft(LAMBDA acc, dep : Append(acc, IF DirAt(ib, dep) = 0 THEN H2(acc[dep], Sib(dep)) ELSE H2(Sib(dep), acc[dep])),
                       <<v>>, [dep \in 1..Depth |-> dep])           \* vals[dep+1] = value at height dep
      onPath == {Prefix(ib, dep) : dep \in 0..Depth}
      \* an empty node that is split materialises BOTH children (the untouched one stays an empty node)
      newSibs == {Prefix(ib, dep) \o <<1 - DirAt(ib, dep)>> : dep \in {d \in 1..Depth : Prefix(ib, d) \notin DOMAIN ns \/ ns[Prefix(ib, d)].kind = "E"}}
  IN [pos \in (DOMAIN ns) \cup onPath \cup newSibs |->
        IF pos \in onPath THEN [kind |-> "F", val |-> vals[Depth - Len(pos) + 1]]
        ELSE IF pos \in DOMAIN ns THEN ns[pos]
        ELSE [kind |-> "E", val |-> Empty(Depth - Len(pos))]]
\* writeProof on the NEW structure: out[dep-1] = value of the sibling at height dep-1
WriteProof(ns, ib) == [dep \in 1..Depth |-> NodeVal(ns, Prefix(ib, dep) \o <<1 - DirAt(ib, dep)>>, dep - 1)]

Update(ib, v) ==
  /\ Len(hist) < MaxOps
  /\ LET ns2 == WithValue(nodes, ib, v)
         pr  == WriteProof(ns2, ib)
     IN /\ nodes' = ns2
        /\ leaves' = (IF ib \in DOMAIN leaves THEN [leaves EXCEPT ![ib] = v] ELSE leaves @@ (ib :> v))
        /\ last' = [prevRoot |-> nodes[<<>>].val, prevLeaf |-> LeafAt(leaves, ib), path |-> ib, value |-> v, proof |-> pr]
        /\ hist' = Append(hist, [path |-> ib, value |-> v, root |-> ns2[<<>>].val, proof |-> pr])
Next == \E ib \in Cands, v \in Vals : Update(ib, v)
Spec == Init /\ [][Next]_vars

\* ---- properties ----
RootIsRecomputation == nodes[<<>>].val = Recompute(leaves)
ProofAuthenticates == hist # <<>> =>
     /\ RootFrom(last.prevLeaf, last.path, last.proof) = last.prevRoot
     /\ RootFrom(last.value, last.path, last.proof) = nodes[<<>>].val
     /\ last.proof = PathOf(leaves, last.path)
OthersUnchanged == \A p \in {q \in DOMAIN nodes : Len(q) = Depth} : nodes[p].val = LeafAt(leaves, p)
EmptyTable == \A k \in 0..(Depth - 1) : Empty(k + 1) = H2(Empty(k), Empty(k))
CachedHashes == \A pos \in DOMAIN nodes : Len(pos) < Depth /\ nodes[pos].kind = "F" =>
                   nodes[pos].val = H2(NodeVal(nodes, pos \o <<0>>, Depth - Len(pos) - 1), NodeVal(nodes, pos \o <<1>>, Depth - Len(pos) - 1))
Export == Len(hist) = MaxOps => PrintT("TRACE " \o ToJson([depth |-> Depth, ops |-> hist]))
NoHistView == <<nodes, leaves, last>>
====
