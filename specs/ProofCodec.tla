---- MODULE ProofCodec ----
(***************************************************************************)
(* The JSON form of a Groth16 proof (prover/marshal.go, Proof.MarshalJSON / *)
(* Proof.UnmarshalJSON) as a three-phase machine                            *)
(*        proof --Marshal--> json --Unmarshal--> decoded                    *)
(* at the byte level.  A proof is 8 base-field coordinates; gnark's raw     *)
(* serialisation holds each one big-endian in a fixed Slot-byte slot, in    *)
(* the order  A.x A.y B.x1 B.x0 B.y1 B.y0 C.x C.y  (the order consumed by   *)
(* the EVM pairing precompile).  The JSON document stores each coordinate   *)
(* as a number without leading zeros.  Bytes are symbolic: byte j of        *)
(* coordinate i is <<i, j>>, the leading byte of a minimal form is non-zero *)
(* by construction, Z = <<0, 0>> is the zero byte.                           *)
(***************************************************************************)
EXTENDS Naturals, Sequences, TLC, Json
CONSTANTS Slot,    \* slot width in bytes (32 in production)
          Lens,    \* candidate minimal byte lengths of a coordinate (subset of 0..Slot; 0 is the value zero);
                   \* Slot+1 stands for a full-width coordinate from the TOP of the base field (>= the scalar-field order r, < p)
          TZs,     \* candidate numbers of TRAILING zero bytes of a coordinate (value divisible by 256^t); at most one coordinate per proof has t > 0
          Align,   \* "right" = the specification; "left" = mutant (what copy(slot, v.Bytes()) does)
          Trim     \* "leading" = the specification (a number has no leading zeros); "both" = mutant (bytes.Trim instead of TrimLeft)

NC == 8
CoordName == <<"A.x", "A.y", "B.x1", "B.x0", "B.y1", "B.y0", "C.x", "C.y">>
JsonPath  == <<"ar[0]", "ar[1]", "bs[0][0]", "bs[0][1]", "bs[1][0]", "bs[1][1]", "krs[0]", "krs[1]">>

Z == <<0, 0>>
Zeros(n) == [j \in 1..n |-> Z]
W(k) == IF k = Slot + 1 THEN Slot ELSE k                 \* byte width of a length class
\* minimal big-endian byte string of coordinate i with t trailing zero bytes (t < width: the leading byte stays non-zero)
Minimal(i, k, t) == [j \in 1..W(k) |-> IF j > W(k) - t /\ j > 1 THEN Z ELSE <<i, j>>]
SlotOf(i, k, t)  == Zeros(Slot - W(k)) \o Minimal(i, k, t)       \* its fixed-width big-endian form
RECURSIVE Strip(_)
Strip(s) == IF s # <<>> /\ Head(s) = Z THEN Strip(Tail(s)) ELSE s     \* a number has no leading zeros
RECURSIVE StripR(_)
StripR(s) == IF s # <<>> /\ s[Len(s)] = Z THEN StripR(SubSeq(s, 1, Len(s) - 1)) ELSE s
Render(s) == IF Trim = "both" THEN StripR(Strip(s)) ELSE Strip(s)
Place(num) == IF Align = "right" THEN Zeros(Slot - Len(num)) \o num
                                 ELSE num \o Zeros(Slot - Len(num))

VARIABLES phase, lens, tz, raw, doc, buf
vars == <<phase, lens, tz, raw, doc, buf>>

Init == /\ phase = "proof" /\ lens \in [1..NC -> Lens]
        /\ tz \in {f \in [1..NC -> TZs] : \A i, j \in 1..NC : f[i] > 0 /\ f[j] > 0 => i = j}
        /\ raw = [i \in 1..NC |-> SlotOf(i, lens[i], tz[i])]
        /\ doc = <<>> /\ buf = <<>>
\* MarshalJSON: WriteRawTo, split into NC slots, each rendered as a number
Marshal == /\ phase = "proof" /\ phase' = "json"
           /\ doc' = [i \in 1..NC |-> [path |-> JsonPath[i], num |-> Render(raw[i])]]
           /\ UNCHANGED <<lens, tz, raw, buf>>
\* UnmarshalJSON: parse the NC numbers, lay each one out in its slot, hand the buffer to gnark's reader
Unmarshal == /\ phase = "json" /\ phase' = "decoded"
             /\ buf' = [i \in 1..NC |-> Place(doc[i].num)]
             /\ UNCHANGED <<lens, tz, raw, doc>>
Next == Marshal \/ Unmarshal
Spec == Init /\ [][Next]_vars

RoundTrip == phase = "decoded" => buf = raw
EVMOrder  == phase = "json" => \A i \in 1..NC : doc[i].path = JsonPath[i] /\ doc[i].num = Minimal(i, lens[i], tz[i])
\* behaviours for replay: the length vector, with the coordinate names in JSON order
Export == phase = "decoded" => PrintT("TRACE " \o ToJson([lens |-> lens, tz |-> tz, names |-> CoordName, paths |-> JsonPath]))
====
