---- MODULE ProofSession ----
(***************************************************************************)
(* Sessions of the proof codec (prover/marshal.go) in one process: the     *)
(* decoded proof is a VALUE.  A caller decodes documents into destination  *)
(* variables (a reused `var p prover.Proof`, the elements of a reused      *)
(* slice), keeps results by value (`kept = append(kept, p)`), decodes the  *)
(* next document into the same destination, and later encodes or verifies  *)
(* what it kept.  ProofCodec.tla states the byte-level round trip of ONE   *)
(* proof; this module states that round trips do not interfere:            *)
(*     what was decoded from document q still encodes to document q,       *)
(*     however many documents were decoded afterwards and wherever.        *)
(* The Go value prover.Proof holds a pointer to the gnark proof object, so *)
(* the model has an explicit heap: objects with contents; a struct copy    *)
(* copies the pointer.  The specification allocates a fresh object per     *)
(* decode; the mutant Reuse = TRUE decodes into the object the destination *)
(* already points to (saving an allocation), which every earlier copy      *)
(* shares.                                                                 *)
(***************************************************************************)
EXTENDS Naturals, Sequences, FiniteSets, TLC, Json
CONSTANTS Dests,      \* destination variables
          Docs,       \* proof documents (ids)
          MaxOps,
          Reuse       \* FALSE = specification; TRUE = mutant
VARIABLES heap,       \* Seq of contents: heap[o] = the document whose proof object o holds
          dest,       \* [Dests -> 0 (nil) or object index]
          kept,       \* Seq of [ptr, doc]: value copies, with the document they were decoded from
          hist
vars == <<heap, dest, kept, hist>>
Init == heap = <<>> /\ dest = [d \in Dests |-> 0] /\ kept = <<>> /\ hist = <<>>

Bound == Len(hist) < MaxOps
\* json.Unmarshal(doc q, &d)
Decode(d, q) == /\ Bound
                /\ IF Reuse /\ dest[d] # 0
                     THEN heap' = [heap EXCEPT ![dest[d]] = q] /\ UNCHANGED dest
                     ELSE heap' = Append(heap, q) /\ dest' = [dest EXCEPT ![d] = Len(heap) + 1]
                /\ UNCHANGED kept /\ hist' = Append(hist, [op |-> "decode", dest |-> d, doc |-> q])
\* kept = append(kept, d)   (struct copy)
Keep(d) == /\ Bound /\ dest[d] # 0 /\ Len(kept) < 3
           /\ kept' = Append(kept, [ptr |-> dest[d], doc |-> heap[dest[d]]])
           /\ UNCHANGED <<heap, dest>> /\ hist' = Append(hist, [op |-> "keep", dest |-> d])
\* json.Marshal(kept[i]) / Verify(kept[i]): what the kept value encodes to now
Check(i) == /\ Bound /\ i \in 1..Len(kept)
            /\ UNCHANGED <<heap, dest, kept>>
            /\ hist' = Append(hist, [op |-> "check", kept |-> i, doc |-> heap[kept[i].ptr]])
\* d2 = d  (assignment between destinations: both now hold the same value)
Assign(d, d2) == /\ Bound /\ d # d2 /\ dest[d] # 0
                 /\ dest' = [dest EXCEPT ![d2] = dest[d]] /\ UNCHANGED <<heap, kept>>
                 /\ hist' = Append(hist, [op |-> "assign", dest |-> d, to |-> d2])
Next == \/ \E d \in Dests, q \in Docs : Decode(d, q)
        \/ \E d \in Dests : Keep(d)
        \/ \E i \in 1..3 : Check(i)
        \/ \E d, d2 \in Dests : Assign(d, d2)
Spec == Init /\ [][Next]_vars
\* a kept proof is the proof of the document it was decoded from, for ever
ValueSemantics == \A i \in 1..Len(kept) : heap[kept[i].ptr] = kept[i].doc
Export == Len(hist) = MaxOps => PrintT("TRACE " \o ToJson(hist))
NoHistView == <<heap, dest, kept>>
====
