---- MODULE ProveApi ----
(***************************************************************************)
(* The /prove endpoint as a request/response machine on ONE server:        *)
(* any sequence of requests, each answered according to its class, the     *)
(* server staying in service (a canary valid request after any prefix is   *)
(* answered 200).                                                          *)
(*                                                                         *)
(* A request class is a record [id, method, expect]; `expect` names the    *)
(* set of answers the property allows:                                     *)
(*   "405"  : method other than POST          -> 405, empty body           *)
(*   "mb"   : not a well-formed parameter document -> 400 malformed_body   *)
(*   "pe"   : well-formed, wrong dimensions or not a valid batch           *)
(*                                             -> 400 proving_error        *)
(*   "ok"   : valid batch -> 200 with a proof that verifies for the        *)
(*            request's input hash                                         *)
(*   "e400" : the statement leaves the code open (missing / null arrays,   *)
(*            the other mode's document): 400 with either code             *)
(*   "eany" : the statement leaves the outcome open (numerals outside the  *)
(*            0x-hex notation, representatives >= r, over-long values):    *)
(*            any documented answer; a 200 must still carry a valid proof  *)
(* The class table is instantiated per run (ProveApiRun): numeral classes  *)
(* take their expectation from the NumGrammar machine's verdict for the    *)
(* literal they inject.                                                    *)
(***************************************************************************)
EXTENDS Naturals, Sequences, FiniteSets, TLC, Json
CONSTANTS Classes, MaxSeq, CanaryId

Allowed(e) ==
  CASE e = "405"  -> {[status |-> 405, code |-> "none"]}
    [] e = "mb"   -> {[status |-> 400, code |-> "malformed_body"]}
    [] e = "pe"   -> {[status |-> 400, code |-> "proving_error"]}
    [] e = "ok"   -> {[status |-> 200, code |-> "proof"]}
    [] e = "e400" -> {[status |-> 400, code |-> "malformed_body"], [status |-> 400, code |-> "proving_error"]}
    [] e = "eany" -> {[status |-> 400, code |-> "malformed_body"], [status |-> 400, code |-> "proving_error"], [status |-> 200, code |-> "proof"]}

VARIABLES state,     \* "serving" | "crashed" | "hung"
          hist       \* requests answered so far: [class, answer]
vars == <<state, hist>>
Init == state = "serving" /\ hist = <<>>
\* the server answers a request of class c with one of the allowed answers and stays in service
Serve(c) == /\ state = "serving" /\ Len(hist) < MaxSeq
            /\ \E a \in Allowed(c.expect) : hist' = Append(hist, [class |-> c.id, method |-> c.method, expect |-> c.expect])
            /\ state' = "serving"
Next == \E c \in Classes : Serve(c)
Spec == Init /\ [][Next]_vars

StaysInService == state = "serving"
WellFormedTable == /\ \A c \in Classes : c.expect \in {"405", "mb", "pe", "ok", "e400", "eany"} /\ (c.method # "POST" => c.expect = "405")
                   /\ \E c \in Classes : c.id = CanaryId /\ c.expect = "ok"
                   /\ \A c, d \in Classes : c.id = d.id => c = d
Export == Len(hist) = MaxSeq => PrintT("TRACE " \o ToJson(hist))
====
