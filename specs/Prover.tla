---- MODULE Prover ----
(***************************************************************************)
(* Proving systems at the level of their contract (prover/*_proving_       *)
(* system.go): Setup creates a system for (mode, depth, batch); Prove      *)
(* returns a proof iff the parameters have the system's dimensions and     *)
(* describe a valid batch (validity itself is MTB.tla's subject), else an  *)
(* error and no proof; Verify accepts a proof iff it was issued by THAT    *)
(* system and the supplied public input is congruent, modulo the field     *)
(* order, to the input hash of the parameters it was issued for.           *)
(* Groth16 is abstracted to completeness + soundness; a proof is a token   *)
(* [sys, batchId].                                                         *)
(***************************************************************************)
EXTENDS Naturals, Sequences, FiniteSets, TLC, Json
CONSTANTS Systems,       \* set of system ids
          ModeOf,        \* [Systems -> {"insertion", "deletion"}]
          ParamClasses,  \* [mode -> set of parameter-class names]; "valid" is the only provable one
          HashCands,     \* candidate public inputs for Verify, relative to the proof's own hash
          MaxProofs, MaxSteps

\* representatives of the same field element: the public input is an integer (math/big, possibly negative, possibly wider than 256 bits)
CongruentCands == {"own", "own+r", "own+2r", "own+4r", "own-r", "own-7r", "own+r*2^70"}
\* NOT congruent (r is odd and the hash is not 0): the negated hash and its representatives

VARIABLES proofs,    \* sequence of issued tokens [sys, batch]
          nbatch, hist
vars == <<proofs, nbatch, hist>>
Init == proofs = <<>> /\ nbatch = 0 /\ hist = <<>>

Prove(s, cls) ==
  /\ Len(hist) < MaxSteps /\ cls \in ParamClasses[ModeOf[s]]
  /\ nbatch' = nbatch + 1
  /\ IF cls = "valid"
       THEN /\ Len(proofs) < MaxProofs /\ proofs' = Append(proofs, [sys |-> s, batch |-> nbatch + 1])
            /\ hist' = Append(hist, [op |-> "prove", sys |-> s, cls |-> cls, batch |-> nbatch + 1, ok |-> TRUE, token |-> Len(proofs) + 1])
       ELSE /\ UNCHANGED proofs          \* an error and NO proof
            /\ hist' = Append(hist, [op |-> "prove", sys |-> s, cls |-> cls, batch |-> nbatch + 1, ok |-> FALSE, token |-> 0])
Verify(s, i, cand) ==
  /\ Len(hist) < MaxSteps /\ i \in 1..Len(proofs)
  /\ LET accept == proofs[i].sys = s /\ cand \in CongruentCands
     IN hist' = Append(hist, [op |-> "verify", sys |-> s, token |-> i, cand |-> cand, accept |-> accept])
  /\ UNCHANGED <<proofs, nbatch>>
Next == \/ \E s \in Systems, cls \in UNION {ParamClasses[m] : m \in DOMAIN ParamClasses} : Prove(s, cls)
        \/ \E s \in Systems, i \in 1..MaxProofs, cand \in HashCands : Verify(s, i, cand)
Spec == Init /\ [][Next]_vars

\* a proof is accepted by exactly one system and never for a different field element
ExactlyOwn == \A k \in 1..Len(hist) : hist[k].op = "verify" /\ hist[k].accept =>
                 proofs[hist[k].token].sys = hist[k].sys /\ hist[k].cand \in CongruentCands
NoProofWithoutValidBatch == \A k \in 1..Len(hist) : hist[k].op = "prove" => (hist[k].ok <=> hist[k].cls = "valid")
Export == Len(hist) = MaxSteps => PrintT("TRACE " \o ToJson(hist))
====
