---- MODULE ReducedCheck ----
(***************************************************************************)
(* The bit-encoding gadgets of prover/circuit_utils.go:                    *)
(*   ReducedModRCheck   MSB->LSB scan with `failed` / `succeeded` flags    *)
(*   ToReducedBigEndian ToBinary(n) + check + 8-bit group reversal         *)
(*   FromBinaryBigEndian group reversal + FromBinary                       *)
(* as a ScanBit state machine that is literally the loop of the code, with *)
(* a ghost variable `cmp` (comparison of the digits read so far with the   *)
(* corresponding prefix of the modulus).  A digit is 0, 1 or 2, where 2    *)
(* stands for any non-boolean field element.  The scan state is O(1) per   *)
(* position, so TLC covers ALL digit vectors of length N — all 2^256 (and  *)
(* the non-boolean ones) for BN254 — by state merging.                     *)
(*                                                                         *)
(* Mode "walk": digits are chosen nondeterministically one per step.       *)
(* Mode "vec" : digits come from the vector `vec` fixed in Init (used to   *)
(*              export concrete cases with the verdict for replay).        *)
(***************************************************************************)
EXTENDS Integers, Sequences, TLC, BigField, Json
\* (P = 2 is excluded: F_2 has no non-boolean element, the digit 2 would be the boolean 0.)
CONSTANTS FieldMode,   \* "bn254" | "small"
          P,           \* the prime in "small" mode
          N,           \* number of digits
          Mode,        \* "walk" | "vec"
          Vectors,     \* "all" | "classes"  (vec mode: which vectors Init enumerates)
          Variant      \* "code" (faithful) | mutants "start-late", "accept-eq", "swap"

Big == FieldMode = "bn254"
ASSUME Big \/ P > 2
BN254R == "21888242871839275222246405745257275088548364400416034343698204186575808495617"
ModBitsBig == NBitsLE(BN254R, 256)
ModBit(i) == IF Big THEN (IF i < 256 THEN ModBitsBig[i + 1] ELSE 0)
             ELSE IF i < 30 THEN (P \div (2^i)) % 2 ELSE 0
RECURSIVE BL(_)
BL(x) == IF x = 0 THEN 0 ELSE 1 + BL(x \div 2)
FieldBitLen == IF Big THEN 254 ELSE BL(P)

Or(a, b) == IF a = 1 \/ b = 1 THEN 1 ELSE 0
Select(c, x, y) == IF c = 1 THEN x ELSE y

VARIABLES i,          \* next position to read (N-1 down to 0; -1 = scan finished)
          failed, succeeded, boolOK, cmp, val, vec
vars == <<i, failed, succeeded, boolOK, cmp, val, vec>>

\* class vectors: equal to the modulus above position k, differing at k in direction dir, fill below
ClassVec(k, dir, fill) ==
  [j \in 1..N |-> LET pos == j - 1 IN
     IF pos > k THEN ModBit(pos)
     ELSE IF pos = k THEN (IF dir = "nb" THEN 2 ELSE 1 - ModBit(pos))
     ELSE CASE fill = "zero" -> 0 [] fill = "ones" -> 1 [] OTHER -> ((pos * 7 + k * 3) % 5) % 2]
ModVec == [j \in 1..N |-> ModBit(j - 1)]
ClassVectors == {ClassVec(k, d, f) : k \in 0..(N-1), d \in {"flip", "nb"}, f \in {"zero", "ones", "mix"}} \cup {ModVec}

\* vectors with exactly one non-boolean digit
NBVectors == {[v EXCEPT ![k] = 2] : k \in 1..N, v \in {[j \in 1..N |-> 0], [j \in 1..N |-> 1]}}

Init == /\ i = N - 1 /\ failed = 0 /\ succeeded = 0 /\ boolOK = TRUE /\ cmp = "eq" /\ val = 0
        /\ vec \in (IF Mode = "walk" THEN {<<>>} ELSE IF Vectors = "all" THEN [1..N -> {0, 1}] \cup NBVectors ELSE ClassVectors)

Skip == Variant = "start-late" /\ i = N - 1 /\ N > 1     \* mutant: the loop starts one position too low

ScanBit(b) ==
  /\ i >= 0
  /\ (Mode = "vec" => b = vec[i + 1])
  /\ boolOK' = (boolOK /\ b \in {0, 1})                  \* api.AssertIsBoolean(Input[i])
  /\ LET bb == IF b = 2 THEN 1 ELSE b                    \* flags below are only meaningful for boolean digits
         mbit == ModBit(i)
     IN IF Skip THEN UNCHANGED <<failed, succeeded>>
        ELSE IF (IF Variant = "swap" THEN mbit = 1 ELSE mbit = 0)
        THEN /\ failed' = Select(succeeded, 0, Or(bb, failed))           \* a 1 where the modulus has 0: greater, unless already smaller
             /\ UNCHANGED succeeded
        ELSE /\ succeeded' = Select(failed, 0, Or(1 - bb, succeeded))    \* a 0 where the modulus has 1: smaller, unless already greater
             /\ UNCHANGED failed
  /\ cmp' = (IF cmp # "eq" \/ b = 2 THEN cmp ELSE IF b = ModBit(i) THEN "eq" ELSE IF b < ModBit(i) THEN "lt" ELSE "gt")
  /\ val' = (IF Big \/ N > 24 \/ b = 2 THEN val ELSE val + b * 2^i)
  /\ i' = i - 1 /\ UNCHANGED vec

Next == \E b \in {0, 1, 2} : ScanBit(b)
Spec == Init /\ [][Next]_vars

Done == i = -1
\* the final constraint of the gadget: succeeded == 1 (and every digit boolean)
Accepted == IF N < FieldBitLen THEN boolOK
            ELSE boolOK /\ (IF Variant = "accept-eq" THEN failed = 0 ELSE succeeded = 1)

(* ---- properties ---- *)
FlagsTrackComparison == boolOK /\ N >= FieldBitLen /\ Variant = "code" =>
                           /\ (succeeded = 1 <=> cmp = "lt") /\ (failed = 1 <=> cmp = "gt") /\ ~(succeeded = 1 /\ failed = 1)
\* only the canonical representative: accepted iff the digits are boolean and denote a value below the modulus
OnlyCanonical == Done /\ N >= FieldBitLen => (Accepted <=> (boolOK /\ cmp = "lt"))
\* small fields: the ghost comparison is the integer comparison
CmpIsInteger == Done /\ ~Big /\ N <= 24 /\ boolOK /\ N >= FieldBitLen => ((cmp = "lt") <=> (val < P)) /\ ((cmp = "eq") <=> (val = P))
ShortInputUnconstrained == Done /\ N < FieldBitLen => (Accepted <=> boolOK)

(* ---- byte order of the emitted string, recomposition (small fields, vec mode) ---- *)
NB == N \div 8
\* ToReducedBigEndian output: for i = N-8, N-16, ..., 0 append bits[i .. i+8)   (bits are little-endian digits)
Emitted(bits) == [k \in 1..N |-> LET g == (k - 1) \div 8  j == (k - 1) % 8 IN bits[(N - 8 - 8 * g) + j + 1]]
ByteOf(s, g) == LET o == 8 * g IN s[o+1] + 2*s[o+2] + 4*s[o+3] + 8*s[o+4] + 16*s[o+5] + 32*s[o+6] + 64*s[o+7] + 128*s[o+8]
EmittedIsBigEndian == Done /\ Mode = "vec" /\ ~Big /\ N <= 24 /\ N % 8 = 0 /\ boolOK =>
                        \A g \in 0..(NB - 1) : ByteOf(Emitted(vec), g) = (val \div (256^(NB - 1 - g))) % 256
\* FromBinaryBigEndian(s): group reversal then sum of s'[i] 2^i, modulo the field
FromBE(s) == LET le == Emitted(s)   \* the reversal is an involution on byte-aligned strings
             IN LET RECURSIVE Sum(_) Sum(k) == IF k = 0 THEN 0 ELSE Sum(k - 1) + le[k] * 2^(k - 1) IN Sum(N) % P
RecomposeIsValue == Done /\ Mode = "vec" /\ ~Big /\ N <= 24 /\ N % 8 = 0 /\ boolOK => FromBE(Emitted(vec)) = val % P

Export == Done /\ Mode = "vec" =>
   PrintT("TRACE " \o ToJson([p |-> IF Big THEN BN254R ELSE NOfInt(P), n |-> N, bits |-> vec, accept |-> Accepted,
                               cmp |-> cmp, emitted |-> IF boolOK /\ N % 8 = 0 THEN Emitted(vec) ELSE <<>>,
                               value |-> IF Big THEN NFromBitsLE([j \in 1..N |-> IF vec[j] = 2 THEN 0 ELSE vec[j]]) ELSE NOfInt(val)]))
====
