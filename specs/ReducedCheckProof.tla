---- MODULE ReducedCheckProof ----
(***************************************************************************)
(* TLAPS proof that the flags of the ReducedModRCheck scan track the       *)
(* comparison of the digits read so far with the modulus prefix — for      *)
(* EVERY width N and EVERY modulus digit function M, not only the BN254    *)
(* instance that TLC explores exhaustively (ReducedCheck.tla).  The scan   *)
(* machine below is ReducedCheck.tla's ScanBit restricted to boolean       *)
(* digits, with the modulus abstracted to an arbitrary M : 0..N-1 -> {0,1}.*)
(***************************************************************************)
EXTENDS Integers, TLAPS
CONSTANTS N, M
ASSUME NAssm == N \in Nat
ASSUME MAssm == M \in [0..(N-1) -> {0, 1}]

VARIABLES i, failed, succeeded, cmp
vars == <<i, failed, succeeded, cmp>>

Or(a, b) == IF a = 1 \/ b = 1 THEN 1 ELSE 0
Select(c, x, y) == IF c = 1 THEN x ELSE y

Init == i = N - 1 /\ failed = 0 /\ succeeded = 0 /\ cmp = "eq"
ScanBit(b) ==
  /\ i >= 0
  /\ IF M[i] = 0
       THEN failed' = Select(succeeded, 0, Or(b, failed)) /\ UNCHANGED succeeded
       ELSE succeeded' = Select(failed, 0, Or(1 - b, succeeded)) /\ UNCHANGED failed
  /\ cmp' = (IF cmp # "eq" THEN cmp ELSE IF b = M[i] THEN "eq" ELSE IF b < M[i] THEN "lt" ELSE "gt")
  /\ i' = i - 1
Next == \E b \in {0, 1} : ScanBit(b)
Spec == Init /\ [][Next]_vars

TypeOK == i \in -1..(N-1) /\ failed \in {0, 1} /\ succeeded \in {0, 1} /\ cmp \in {"eq", "lt", "gt"}
Inv == /\ TypeOK
       /\ (succeeded = 1 <=> cmp = "lt")
       /\ (failed = 1 <=> cmp = "gt")

THEOREM InitInv == Init => Inv
  BY NAssm DEF Init, Inv, TypeOK

THEOREM NextInv == Inv /\ [Next]_vars => Inv'
<1> SUFFICES ASSUME Inv, [Next]_vars PROVE Inv'
  OBVIOUS
<1>1. CASE UNCHANGED vars
  BY <1>1 DEF Inv, TypeOK, vars
<1>2. ASSUME NEW b \in {0, 1}, ScanBit(b) PROVE Inv'
  <2>1. i \in 0..(N-1) /\ M[i] \in {0, 1}
    BY <1>2, MAssm, NAssm DEF ScanBit, Inv, TypeOK
  <2>2. CASE M[i] = 0
    BY <1>2, <2>1, <2>2, NAssm DEF ScanBit, Inv, TypeOK, Or, Select
  <2>3. CASE M[i] = 1
    BY <1>2, <2>1, <2>3, NAssm DEF ScanBit, Inv, TypeOK, Or, Select
  <2> QED BY <2>1, <2>2, <2>3
<1> QED BY <1>1, <1>2 DEF Next

THEOREM Safety == Spec => []Inv
  BY InitInv, NextInv, PTL DEF Spec
====
