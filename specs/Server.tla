---- MODULE Server ----
(***************************************************************************)
(* Goroutine-level model of server.Run (server/server.go, server/job.go,   *)
(* server/wrapped_http/serve_mux.go) and of the parts of net/http that     *)
(* matter for start-up, graceful shutdown, request handling and metrics.   *)
(*                                                                         *)
(* Processes                                                               *)
(*   main            Run returned; [RequestStop; AwaitStop; re-bind]       *)
(*   combined job    waiter goroutine of CombineJobs(metricsJob, proverJob)*)
(*   per server j    waiter goroutine (<-stop; Shutdown; [join]; close)    *)
(*                   start goroutine (ListenAndServe)                      *)
(*   clients c       one HTTP request each to /prove on the prover server, *)
(*                   through the promhttp wrapper and the prove handler    *)
(*                                                                         *)
(* One action per critical section / hook of the implementation; the steps *)
(* inside net/http (which no hook can observe) are separate actions so     *)
(* that TLC explores the races between ListenAndServe and Shutdown.        *)
(*                                                                         *)
(* Constants select the design variant:                                    *)
(*   WaitForStart  TRUE  = the waiter joins the start goroutine before     *)
(*                         close(closed)   (the code after the C14 fix)    *)
(*                 FALSE = close(closed) right after shutdown() returns    *)
(*                         (the code as originally written; mutant)        *)
(*   Graceful      TRUE  = http.Server.Shutdown;  FALSE = Close (mutant)   *)
(*   SharedParams  FALSE = handler state is request-local;                 *)
(*                 TRUE  = decoded parameters kept in a shared variable    *)
(*                         (mutant for the isolation property C13)        *)
(*   Wrapped       TRUE  = /prove registered through the metrics wrapper;  *)
(*                 FALSE = registered on the bare mux (mutant for C20)     *)
(*   AllowStop     FALSE = main never stops (C13 / C20 configurations)     *)
(***************************************************************************)
EXTENDS Naturals, FiniteSets, Sequences, TLC
CONSTANTS Clients,       \* set of client ids (strings, e.g. "c1")
          ReqKinds,      \* set of request kinds a client may send, records [method, body]
          WaitForStart, Graceful, SharedParams, Wrapped, AllowStop

Jobs == {"m", "p"}                 \* metrics server, prover server

\* --- what /prove must answer (ProveApi.tla refines the body classes) ---
Expected(rq) ==
  IF rq.method # "POST" THEN [status |-> 405, code |-> "none"]
  ELSE IF rq.body = "malformed" THEN [status |-> 400, code |-> "malformed_body"]
  ELSE IF rq.body = "unsat" THEN [status |-> 400, code |-> "proving_error"]
  ELSE [status |-> 200, code |-> "proof"]
\* promhttp label of a method: lower-cased standard method or "unknown"
MLabel(m) == CASE m = "GET" -> "get" [] m = "POST" -> "post" [] m = "PUT" -> "put" [] m = "DELETE" -> "delete"
               [] m = "HEAD" -> "head" [] m = "PATCH" -> "patch" [] m = "OPTIONS" -> "options" [] OTHER -> "unknown"
Labels == {<<MLabel(k.method), Expected(k).status>> : k \in ReqKinds}

VARIABLES
  pcMain, stopC, closedC, pcWC,                  \* main + combined job
  stop, closed, pcW, pcS, startDone,             \* per-server job: waiter / start goroutines
  inShutdown, lst, active,                       \* net/http server state
  req, pcC, resp, proofOf, shared,               \* clients and the prove handler
  inflight, total, sentBag,                      \* metrics registers; responses actually sent
  aborted, rebind

vMain == <<pcMain, stopC, closedC, pcWC, rebind>>
vJob  == <<stop, closed, pcW, pcS, startDone>>
vHttp == <<inShutdown, lst, active>>
vCli  == <<req, pcC, resp, proofOf, shared, aborted>>
vMet  == <<inflight, total, sentBag>>
vars  == <<vMain, vJob, vHttp, vCli, vMet>>

ZeroBag == [l \in Labels |-> 0]
NoResp == [status |-> 0, code |-> "pending"]

Init ==
  /\ pcMain = "running" /\ stopC = FALSE /\ closedC = FALSE /\ pcWC = "wait" /\ rebind = "na"
  /\ stop = [j \in Jobs |-> FALSE] /\ closed = [j \in Jobs |-> FALSE]
  /\ pcW = [j \in Jobs |-> "wait"] /\ pcS = [j \in Jobs |-> "spawned"] /\ startDone = [j \in Jobs |-> FALSE]
  /\ inShutdown = [j \in Jobs |-> FALSE] /\ lst = [j \in Jobs |-> "none"] /\ active = [j \in Jobs |-> {}]
  /\ req \in [Clients -> ReqKinds]
  /\ pcC = [c \in Clients |-> "idle"] /\ resp = [c \in Clients |-> NoResp] /\ proofOf = [c \in Clients |-> "none"]
  /\ shared = "none" /\ aborted = {}
  /\ inflight = 0 /\ total = ZeroBag /\ sentBag = ZeroBag

(***************************************************************************)
(* main: instance.RequestStop(); instance.AwaitStop(); then the caller     *)
(* (TestMain, an operator restarting the service) binds the same addresses *)
(***************************************************************************)
MainStop  == /\ AllowStop /\ pcMain = "running" /\ stopC' = TRUE /\ pcMain' = "await"
             /\ UNCHANGED <<closedC, pcWC, rebind, vJob, vHttp, vCli, vMet>>
MainAwait == /\ pcMain = "await" /\ closedC /\ pcMain' = "rebind"
             /\ UNCHANGED <<stopC, closedC, pcWC, rebind, vJob, vHttp, vCli, vMet>>
MainBind  == /\ pcMain = "rebind" /\ pcMain' = "done"
             /\ rebind' = (IF \E j \in Jobs : lst[j] \in {"bound", "tracked"} THEN "EADDRINUSE" ELSE "ok")
             /\ UNCHANGED <<stopC, closedC, pcWC, vJob, vHttp, vCli, vMet>>

(***************************************************************************)
(* combined job (CombineJobs): <-stop; RequestStop(m); RequestStop(p);     *)
(* AwaitStop(m); AwaitStop(p); close(closed).  Its start function is empty.*)
(***************************************************************************)
CWake  == pcWC = "wait" /\ stopC /\ pcWC' = "reqM"
          /\ UNCHANGED <<pcMain, stopC, closedC, rebind, vJob, vHttp, vCli, vMet>>
CReqM  == pcWC = "reqM" /\ pcWC' = "reqP" /\ stop' = [stop EXCEPT !["m"] = TRUE]
          /\ UNCHANGED <<pcMain, stopC, closedC, rebind, closed, pcW, pcS, startDone, vHttp, vCli, vMet>>
CReqP  == pcWC = "reqP" /\ pcWC' = "awM" /\ stop' = [stop EXCEPT !["p"] = TRUE]
          /\ UNCHANGED <<pcMain, stopC, closedC, rebind, closed, pcW, pcS, startDone, vHttp, vCli, vMet>>
CAwM   == pcWC = "awM" /\ closed["m"] /\ pcWC' = "awP"
          /\ UNCHANGED <<pcMain, stopC, closedC, rebind, vJob, vHttp, vCli, vMet>>
CAwP   == pcWC = "awP" /\ closed["p"] /\ pcWC' = "closing"
          /\ UNCHANGED <<pcMain, stopC, closedC, rebind, vJob, vHttp, vCli, vMet>>
CClose == pcWC = "closing" /\ pcWC' = "done" /\ closedC' = TRUE
          /\ UNCHANGED <<pcMain, stopC, rebind, vJob, vHttp, vCli, vMet>>

(***************************************************************************)
(* per-server waiter: <-stop; server.Shutdown(ctx) = { inShutdown.Store;   *)
(* close tracked listeners; poll until no active connection };             *)
(* [<-startDone]; close(closed)                                            *)
(***************************************************************************)
WWake(j)  == pcW[j] = "wait" /\ stop[j] /\ pcW' = [pcW EXCEPT ![j] = "shut1"]
             /\ UNCHANGED <<vMain, stop, closed, pcS, startDone, vHttp, vCli, vMet>>
WShut1(j) == pcW[j] = "shut1" /\ inShutdown' = [inShutdown EXCEPT ![j] = TRUE] /\ pcW' = [pcW EXCEPT ![j] = "shut2"]
             /\ UNCHANGED <<vMain, stop, closed, pcS, startDone, lst, active, vCli, vMet>>
WShut2(j) == pcW[j] = "shut2" /\ pcW' = [pcW EXCEPT ![j] = "shut3"]
             /\ lst' = [lst EXCEPT ![j] = IF lst[j] = "tracked" THEN "closed" ELSE lst[j]]
             /\ UNCHANGED <<vMain, stop, closed, pcS, startDone, inShutdown, active, vCli, vMet>>
WShut3(j) == /\ pcW[j] = "shut3" /\ pcW' = [pcW EXCEPT ![j] = "join"]
             /\ IF Graceful THEN active[j] = {} /\ UNCHANGED <<active, aborted>>
                ELSE /\ active' = [active EXCEPT ![j] = {}]          \* Close(): drops connections with requests in flight
                     /\ aborted' = aborted \cup {c \in active[j] : pcC[c] \notin {"idleconn", "done"}}
             /\ UNCHANGED <<vMain, stop, closed, pcS, startDone, inShutdown, lst, req, pcC, resp, proofOf, shared, vMet>>
WJoin(j)  == /\ pcW[j] = "join" /\ (WaitForStart => startDone[j])
             /\ closed' = [closed EXCEPT ![j] = TRUE] /\ pcW' = [pcW EXCEPT ![j] = "done"]
             /\ UNCHANGED <<vMain, stop, pcS, startDone, vHttp, vCli, vMet>>

(***************************************************************************)
(* per-server start goroutine: server.ListenAndServe() =                   *)
(*   if shuttingDown return ErrServerClosed; ln := net.Listen(addr);       *)
(*   Serve(ln): if !trackListener(ln) { ln.Close(); return ErrServerClosed *)
(*   }; accept loop until the listener is closed                           *)
(***************************************************************************)
SBegin(j)  == pcS[j] = "spawned" /\ pcS' = [pcS EXCEPT ![j] = "check"]      \* goroutine scheduled (hook srv.start.begin)
              /\ UNCHANGED <<vMain, stop, closed, pcW, startDone, vHttp, vCli, vMet>>
SCheck(j)  == pcS[j] = "check" /\ pcS' = [pcS EXCEPT ![j] = IF inShutdown[j] THEN "ret" ELSE "listen"]
              /\ UNCHANGED <<vMain, stop, closed, pcW, startDone, vHttp, vCli, vMet>>
SListen(j) == pcS[j] = "listen" /\ lst[j] # "bound" /\ lst' = [lst EXCEPT ![j] = "bound"] /\ pcS' = [pcS EXCEPT ![j] = "track"]
              /\ UNCHANGED <<vMain, stop, closed, pcW, startDone, inShutdown, active, vCli, vMet>>
STrack(j)  == /\ pcS[j] = "track"
              /\ IF inShutdown[j] THEN lst' = [lst EXCEPT ![j] = "closed"] /\ pcS' = [pcS EXCEPT ![j] = "ret"]
                                  ELSE lst' = [lst EXCEPT ![j] = "tracked"] /\ pcS' = [pcS EXCEPT ![j] = "serve"]
              /\ UNCHANGED <<vMain, stop, closed, pcW, startDone, inShutdown, active, vCli, vMet>>
SServe(j)  == pcS[j] = "serve" /\ lst[j] = "closed" /\ pcS' = [pcS EXCEPT ![j] = "ret"]
              /\ UNCHANGED <<vMain, stop, closed, pcW, startDone, vHttp, vCli, vMet>>
SRet(j)    == pcS[j] = "ret" /\ startDone' = [startDone EXCEPT ![j] = TRUE] /\ pcS' = [pcS EXCEPT ![j] = "done"]   \* hook srv.start.end
              /\ UNCHANGED <<vMain, stop, closed, pcW, vHttp, vCli, vMet>>

(***************************************************************************)
(* a client request to /prove on the prover server:                        *)
(*   connect/accept; wrapper: inflight++; handler: enter, [read body,      *)
(*   decode, prove], write response; wrapper: total[method,code]++,        *)
(*   inflight--; connection idle; closed                                   *)
(***************************************************************************)
Alive(c) == c \notin aborted
Bump(bag, l) == [bag EXCEPT ![l] = @ + 1]
LabelOf(c) == <<MLabel(req[c].method), Expected(req[c]).status>>

CConnect(c) == /\ pcC[c] = "idle"
               /\ IF lst["p"] = "tracked"
                    THEN pcC' = [pcC EXCEPT ![c] = "accepted"] /\ active' = [active EXCEPT !["p"] = @ \cup {c}]
                    ELSE pcC' = [pcC EXCEPT ![c] = "refused"] /\ UNCHANGED active
               /\ UNCHANGED <<vMain, vJob, inShutdown, lst, req, resp, proofOf, shared, aborted, vMet>>
CInc(c)     == /\ pcC[c] = "accepted" /\ Alive(c) /\ pcC' = [pcC EXCEPT ![c] = "wrapped"]
               /\ inflight' = IF Wrapped THEN inflight + 1 ELSE inflight
               /\ UNCHANGED <<vMain, vJob, vHttp, req, resp, proofOf, shared, aborted, total, sentBag>>
\* handler entry (hook prove.enter): method check
HEnter(c)   == /\ pcC[c] = "wrapped" /\ Alive(c)
               /\ pcC' = [pcC EXCEPT ![c] = IF req[c].method # "POST" THEN "respond" ELSE "entered"]
               /\ UNCHANGED <<vMain, vJob, vHttp, req, resp, proofOf, shared, aborted, vMet>>
\* io.ReadAll(r.Body) (hook prove.read)
HRead(c)    == /\ pcC[c] = "entered" /\ Alive(c) /\ pcC' = [pcC EXCEPT ![c] = "readbody"]
               /\ shared' = (IF SharedParams THEN c ELSE shared)       \* mutant: the body lands in a buffer shared between requests
               /\ UNCHANGED <<vMain, vJob, vHttp, req, resp, proofOf, aborted, vMet>>
\* json.Unmarshal into request-local parameters (hook prove.decoded; a decode failure goes straight to the error response)
HDecode(c)  == /\ pcC[c] = "readbody" /\ Alive(c)
               /\ LET src == IF SharedParams THEN shared ELSE c IN
                    IF req[src].body = "malformed"
                    THEN pcC' = [pcC EXCEPT ![c] = "respond"] /\ proofOf' = [proofOf EXCEPT ![c] = "malformed"]
                    ELSE pcC' = [pcC EXCEPT ![c] = "decoded"] /\ proofOf' = [proofOf EXCEPT ![c] = src]      \* whose parameters were decoded
               /\ UNCHANGED <<vMain, vJob, vHttp, req, resp, shared, aborted, vMet>>
\* ProveInsertion / ProveDeletion on the decoded parameters (hook prove.proved)
HProve(c)   == /\ pcC[c] = "decoded" /\ Alive(c)
               /\ LET src == proofOf[c] IN
                    proofOf' = [proofOf EXCEPT ![c] = IF req[src].body = "valid" THEN src ELSE "error"]
               /\ pcC' = [pcC EXCEPT ![c] = "respond"]
               /\ UNCHANGED <<vMain, vJob, vHttp, req, resp, shared, aborted, vMet>>
\* response written (hook prove.respond / prove.error)
HRespond(c) == /\ pcC[c] = "respond" /\ Alive(c)
               /\ LET e == Expected(req[c])
                      r == IF req[c].method # "POST" THEN e
                           ELSE IF proofOf[c] = "malformed" THEN [status |-> 400, code |-> "malformed_body"]
                           ELSE IF proofOf[c] = "error" THEN [status |-> 400, code |-> "proving_error"]
                           ELSE [status |-> 200, code |-> "proof"]
                  IN /\ resp' = [resp EXCEPT ![c] = r]
                     /\ sentBag' = Bump(sentBag, <<MLabel(req[c].method), r.status>>)
               /\ pcC' = [pcC EXCEPT ![c] = "written"]
               /\ UNCHANGED <<vMain, vJob, vHttp, req, proofOf, shared, aborted, inflight, total>>
\* promhttp InstrumentHandlerCounter: after the wrapped handler returned
CCount(c)   == /\ pcC[c] = "written" /\ pcC' = [pcC EXCEPT ![c] = "counted"]
               /\ total' = IF Wrapped THEN Bump(total, <<MLabel(req[c].method), resp[c].status>>) ELSE total
               /\ UNCHANGED <<vMain, vJob, vHttp, req, resp, proofOf, shared, aborted, inflight, sentBag>>
\* promhttp InstrumentHandlerInFlight: deferred decrement
CDec(c)     == /\ pcC[c] = "counted" /\ pcC' = [pcC EXCEPT ![c] = "idleconn"]
               /\ inflight' = IF Wrapped THEN inflight - 1 ELSE inflight
               /\ UNCHANGED <<vMain, vJob, vHttp, req, resp, proofOf, shared, aborted, total, sentBag>>
CClose2(c)  == /\ pcC[c] = "idleconn" /\ pcC' = [pcC EXCEPT ![c] = "done"]
               /\ active' = [active EXCEPT !["p"] = @ \ {c}]
               /\ UNCHANGED <<vMain, vJob, inShutdown, lst, req, resp, proofOf, shared, aborted, vMet>>

ClientStep(c) == CConnect(c) \/ CInc(c) \/ HEnter(c) \/ HRead(c) \/ HDecode(c) \/ HProve(c) \/ HRespond(c) \/ CCount(c) \/ CDec(c) \/ CClose2(c)
JobStep(j) == WWake(j) \/ WShut1(j) \/ WShut2(j) \/ WShut3(j) \/ WJoin(j)
              \/ SBegin(j) \/ SCheck(j) \/ SListen(j) \/ STrack(j) \/ SServe(j) \/ SRet(j)
MainStep == MainStop \/ MainAwait \/ MainBind \/ CWake \/ CReqM \/ CReqP \/ CAwM \/ CAwP \/ CClose

ClientsQuiet == \A c \in Clients : pcC[c] \in {"idle", "refused", "done", "idleconn"} \/ ~Alive(c)
AllDone == /\ pcMain = "done" /\ pcWC = "done"
           /\ \A j \in Jobs : pcW[j] = "done" /\ pcS[j] = "done"
Next == MainStep \/ (\E j \in Jobs : JobStep(j)) \/ (\E c \in Clients : ClientStep(c))
        \/ (AllDone /\ UNCHANGED vars)
Spec == Init /\ [][Next]_vars /\ WF_vars(Next)
FairSpec == Init /\ [][Next]_vars
              /\ WF_vars(MainStep) /\ \A j \in Jobs : WF_vars(JobStep(j))
              /\ \A c \in Clients : WF_vars(ClientStep(c))

(***************************************************************************)
(* Properties                                                              *)
(***************************************************************************)
TypeOK == /\ pcMain \in {"running", "await", "rebind", "done"}
          /\ inflight \in 0..Cardinality(Clients)
\* C14 -----------------------------------------------------------------
\* when AwaitStop has returned, neither listener is bound and none will be bound later
RebindOk   == rebind # "EADDRINUSE"
\* (a start goroutine that has passed the shuttingDown check but not yet called net.Listen WILL bind later)
ListenerReleased == pcMain \in {"rebind", "done"} =>
                      \A j \in Jobs : lst[j] \notin {"bound", "tracked"} /\ pcS[j] \notin {"listen", "track"}
\* every accepted request runs to completion and receives its full response
Drain == aborted = {}
DrainedAtStop == pcMain \in {"rebind", "done"} => \A c \in Clients : pcC[c] \in {"idle", "refused", "idleconn", "done"}
Terminates == AllowStop => <>AllDone
\* C13 -----------------------------------------------------------------
Isolation == \A c \in Clients : resp[c] # NoResp =>
                /\ resp[c] = Expected(req[c])
                /\ (resp[c].status = 200 => proofOf[c] = c)
\* C20 -----------------------------------------------------------------
InWrapper(c) == pcC[c] \in {"wrapped", "entered", "readbody", "decoded", "respond", "written", "counted"}
GaugeExact   == Wrapped => inflight = Cardinality({c \in Clients : InWrapper(c)})
Monotone     == \A l \in Labels : total[l] <= sentBag[l]
Lag          == \A l \in Labels : sentBag[l] - total[l] <= Cardinality({c \in Clients : pcC[c] = "written" /\ LabelOf(c) = l})
Conservation == ClientsQuiet /\ aborted = {} => total = sentBag /\ inflight = 0
MonotoneStep == [][\A l \in Labels : total'[l] >= total[l]]_vars
====
