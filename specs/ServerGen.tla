---- MODULE ServerGen ----
(***************************************************************************)
(* Behaviour generation for gated schedule replay of Server.tla.           *)
(*                                                                         *)
(* The conformance harness turns every hook of the implementation into a   *)
(* gate.  A goroutine then runs until it blocks at its next gate, so the   *)
(* real execution has "run-to-gate" semantics: the steps no hook can see   *)
(* (Internal) happen eagerly, and the schedule is the order in which gates *)
(* are released (Hook) plus the harness's own actions (Drive).  GenNext    *)
(* gives Internal steps priority, which makes the spec state at every      *)
(* decision point equal to the settled state of the implementation, and    *)
(* `hist` records, for every decision, the observation the harness must    *)
(* make BEFORE it (waiting gates, metrics registers, responses so far).    *)
(***************************************************************************)
EXTENDS Server, Json
CONSTANTS MaxHist
VARIABLE hist
gvars == <<vars, hist>>

Internal == \/ \E j \in Jobs : WShut2(j) \/ WShut3(j) \/ SCheck(j) \/ SListen(j) \/ STrack(j) \/ SServe(j)
            \/ \E c \in Clients : CInc(c) \/ CCount(c) \/ CDec(c) \/ CClose2(c)
            \/ CAwM \/ CAwP       \* AwaitStop inside the combined waiter: the hook comes after the receive

\* hookable actions with the key of the gate at which the goroutine waits
HookKeys == {<<"job.wake", "c">>, <<"job.request_stop", "m">>, <<"job.request_stop", "p">>, <<"job.closing", "c">>,
             <<"job.await_return", "c">>}
            \cup {<<k, j>> : k \in {"job.wake", "srv.shutdown.begin", "job.closing", "srv.start.begin", "srv.start.end"}, j \in Jobs}
            \cup {<<k, c>> : k \in {"prove.enter", "prove.read", "prove.decoded", "prove.proved", "prove.respond"}, c \in Clients}
HookAct(k) ==
  CASE k = <<"job.wake", "c">> -> CWake
    [] k = <<"job.request_stop", "m">> -> CReqM
    [] k = <<"job.request_stop", "p">> -> CReqP
    [] k = <<"job.closing", "c">> -> CClose
    [] k = <<"job.await_return", "c">> -> MainAwait
    [] k[1] = "job.wake" /\ k[2] \in Jobs -> WWake(k[2])
    [] k[1] = "srv.shutdown.begin" -> WShut1(k[2])
    [] k[1] = "job.closing" /\ k[2] \in Jobs -> WJoin(k[2])
    [] k[1] = "srv.start.begin" -> SBegin(k[2])
    [] k[1] = "srv.start.end" -> SRet(k[2])
    [] k[1] = "prove.enter" -> HEnter(k[2])
    [] k[1] = "prove.read" -> HRead(k[2])
    [] k[1] = "prove.decoded" -> HDecode(k[2]) /\ pcC'[k[2]] = "decoded"
    [] k[1] = "prove.proved" -> HProve(k[2])
    [] k[1] = "prove.respond" -> HRespond(k[2])
\* the malformed-body path has no decoded/proved hook: decode failure is an eager internal step
InternalDecodeFail == \E c \in Clients : HDecode(c) /\ pcC'[c] = "respond"
InternalAll == Internal \/ InternalDecodeFail

Waiting == {k \in HookKeys : ENABLED HookAct(k)}

Obs == [waiting  |-> Waiting,
        inflight |-> inflight,
        total    |-> {[method |-> l[1], code |-> l[2], n |-> total[l]] : l \in {x \in Labels : total[x] > 0}},
        resp     |-> [c \in Clients |-> resp[c]],
        metricsUp |-> lst["m"] = "tracked",
        proverUp  |-> lst["p"] = "tracked",
        rebind   |-> rebind,
        awaitReturned |-> pcMain \in {"rebind", "done"}]

Rec(kind, name, who) == hist' = Append(hist, [kind |-> kind, name |-> name, who |-> who, pre |-> Obs])

\* harness-driven actions.  Clients connect only while the prover listener is up or after it was
\* closed (never while the start goroutine is in between), so that accept/refuse is deterministic.
Drive == \/ MainStop /\ Rec("drive", "stop", "main")
         \/ MainBind /\ Rec("drive", "rebind", "main")
         \/ \E c \in Clients : /\ lst["p"] \in {"tracked", "closed"} /\ pcS["p"] \in {"serve", "ret", "done"}
                               /\ CConnect(c)
                               /\ Rec("drive", IF lst["p"] = "tracked" THEN "send" ELSE "send-refused", c)
Hook == \E k \in HookKeys : HookAct(k) /\ Rec("hook", k[1], k[2])

GenInit == Init /\ hist = <<>>
GenNext == IF ENABLED InternalAll THEN InternalAll /\ UNCHANGED hist
           ELSE Len(hist) < MaxHist /\ (Drive \/ Hook)
GenSpec == GenInit /\ [][GenNext]_gvars

Quiescent == ~ENABLED InternalAll /\ ~ENABLED Drive /\ ~ENABLED Hook
Export == Quiescent => PrintT("TRACE " \o ToJson([reqs |-> req, steps |-> hist, final |-> Obs]))
GenView == <<vars, hist>>
====
