---- MODULE TraceJob ----
(***************************************************************************)
(* Trace specification for the shutdown protocol as executed by the real   *)
(* `gnark-mbu start` process (C14, command-line leg).  The process is      *)
(* built with the verif tag and writes one ndjson line per hook            *)
(* (VERIF_TRACE_FILE), sequenced under the tracer's mutex.  The harness    *)
(* labels the jobs (c = combined, m = metrics, p = prover) from the order  *)
(* of RequestStop calls and the requests from their X-Verif-Req header.    *)
(* Each line must be a step of Server.tla; steps inside net/http and the   *)
(* promhttp wrapper are silent and eager; a client's connection is a       *)
(* silent step taken when its handler-entry event is next.  The property   *)
(* invariants (Drain, ListenerReleased, Isolation, GaugeExact) are         *)
(* evaluated in every state of the validated behaviour; the final line     *)
(* "exit" must find the protocol terminated (AllDone up to the re-bind).   *)
(***************************************************************************)
EXTENDS Server, Json, IOUtils
Trace == ndJsonDeserialize(IOEnv.TRACE_FILE)
VARIABLE l
tvars == <<vars, l>>
Ev == Trace[l]

TraceInit == /\ Init /\ l = 1 /\ TLCSet(1, 1)
             /\ req = [c \in Clients |-> IF c \in DOMAIN Trace[1].reqs THEN Trace[1].reqs[c] ELSE CHOOSE k \in ReqKinds : TRUE]
Silent == /\ \/ \E j \in Jobs : WShut2(j) \/ WShut3(j) \/ SCheck(j) \/ SListen(j) \/ STrack(j) \/ SServe(j)
             \/ \E c \in Clients : CInc(c) \/ CCount(c) \/ CDec(c) \/ CClose2(c)
             \/ CAwM \/ CAwP
          /\ UNCHANGED l
SilentConnect == /\ l <= Len(Trace) /\ Ev.ev = "prove.enter" /\ Ev.who \in Clients /\ pcC[Ev.who] = "idle"
                 /\ CConnect(Ev.who) /\ pcC'[Ev.who] = "accepted" /\ UNCHANGED l
SilentDecodeFail == /\ l <= Len(Trace) /\ Ev.ev = "prove.respond" /\ Ev.who \in Clients
                    /\ HDecode(Ev.who) /\ pcC'[Ev.who] = "respond" /\ UNCHANGED l
Consume == l' = l + 1
Step == /\ l <= Len(Trace) /\ Consume
        /\ \/ Ev.ev = "header" /\ UNCHANGED vars
           \/ Ev.ev = "job.request_stop" /\ Ev.who = "c" /\ MainStop
           \/ Ev.ev = "job.wake" /\ Ev.who = "c" /\ CWake
           \/ Ev.ev = "job.request_stop" /\ Ev.who = "m" /\ CReqM
           \/ Ev.ev = "job.request_stop" /\ Ev.who = "p" /\ CReqP
           \/ Ev.ev = "job.await_return" /\ Ev.who \in Jobs /\ UNCHANGED vars       \* AwaitStop(m|p) inside the combined waiter: CAwM / CAwP were taken silently
           \/ Ev.ev = "job.closing" /\ Ev.who = "c" /\ CClose
           \/ Ev.ev = "job.await_return" /\ Ev.who = "c" /\ MainAwait
           \/ Ev.ev = "job.wake" /\ Ev.who \in Jobs /\ WWake(Ev.who)
           \/ Ev.ev = "srv.shutdown.begin" /\ WShut1(Ev.who)
           \/ Ev.ev = "srv.shutdown.end" /\ pcW[Ev.who] = "join" /\ UNCHANGED vars   \* Shutdown returned: its three steps are done
           \/ Ev.ev = "job.closing" /\ Ev.who \in Jobs /\ WJoin(Ev.who)
           \/ Ev.ev = "srv.start.begin" /\ SBegin(Ev.who)
           \/ Ev.ev = "srv.start.end" /\ SRet(Ev.who)
           \/ Ev.ev = "prove.enter" /\ Ev.who \in Clients /\ HEnter(Ev.who)
           \/ Ev.ev = "prove.read" /\ Ev.who \in Clients /\ HRead(Ev.who)
           \/ Ev.ev = "prove.decoded" /\ Ev.who \in Clients /\ HDecode(Ev.who) /\ pcC'[Ev.who] = "decoded"
           \/ Ev.ev = "prove.proved" /\ Ev.who \in Clients /\ HProve(Ev.who)
           \/ Ev.ev = "prove.respond" /\ Ev.who \in Clients /\ HRespond(Ev.who) /\ ToString(resp'[Ev.who].status) = Ev.arg
           \/ Ev.ev \in {"prove.enter", "prove.respond", "prove.read"} /\ Ev.who \notin Clients /\ UNCHANGED vars   \* readiness probes of the harness
           \* the process has exited with status 0: everything has terminated, nothing was aborted, nothing is still bound
           \/ Ev.ev = "exit" /\ pcMain = "rebind" /\ pcWC = "done" /\ (\A j \in Jobs : pcW[j] = "done" /\ pcS[j] = "done") /\ UNCHANGED vars
TraceNext == IF ENABLED Silent THEN Silent ELSE (SilentConnect \/ SilentDecodeFail \/ Step)
TraceSpec == TraceInit /\ [][TraceNext]_tvars
HighWater == TLCSet(1, IF l > TLCGet(1) THEN l ELSE TLCGet(1))
TraceAccepted == PrintT(<<"HWM", TLCGet(1), Len(Trace)>>) /\ TLCGet(1) = Len(Trace) + 1
====
