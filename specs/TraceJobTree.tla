---- MODULE TraceJobTree ----
(***************************************************************************)
(* Trace specification binding JobTree.tla to server/job.go: the harness   *)
(* builds trees of real SpawnJob / CombineJobs jobs over instrumented      *)
(* start / shutdown functions with random durations, stops and awaits the  *)
(* root (optionally stopping it twice), and writes one ndjson line per     *)
(* verif hook (job.request_stop / job.wake / job.closing /                 *)
(* job.await_return, job identity = its stop channel) and per leaf         *)
(* function boundary, sequenced under the recorder's mutex.  Every line    *)
(* must be a step of JobTree.tla; the empty start goroutine of a combined  *)
(* job and the loop exits of its waiter are silent and eager; a "reset"    *)
(* line starts the next run.  The invariants of JobTree.tla are evaluated  *)
(* in every state of the validated behaviour.                              *)
(***************************************************************************)
EXTENDS JobTree, Json, IOUtils
Trace == ndJsonDeserialize(IOEnv.TRACE_FILE)
VARIABLE l
tvars == <<vars, l>>
Ev == Trace[l]
TraceInit == Init /\ l = 1 /\ TLCSet(1, 1)
Silent == /\ \/ \E n \in Inner : SBegin(n) \/ SRet(n)
             \/ \E n \in Inner : ki[n] > Len(Kids[n]) /\ (Req(n) \/ Aw(n))
          /\ UNCHANGED l
NextKid(p, n) == ki[p] <= Len(Kids[p]) /\ Kids[p][ki[p]] = n
Reset == /\ stop' = [n \in Nodes |-> FALSE] /\ closed' = [n \in Nodes |-> FALSE]
         /\ pcW' = [n \in Nodes |-> "wait"] /\ ki' = [n \in Nodes |-> 1]
         /\ pcS' = [n \in Nodes |-> "spawned"] /\ shut' = [n \in Nodes |-> "no"]
         /\ calls' = [n \in Nodes |-> 0] /\ extra' = 0 /\ panicked' = "no" /\ awaited' = {}
Step == /\ l <= Len(Trace) /\ l' = l + 1
        /\ \/ Ev.ev = "reset" /\ Reset
           \/ Ev.ev = "job.request_stop" /\ (ExtStop(Ev.n) \/ \E p \in Inner : pcW[p] = "req" /\ NextKid(p, Ev.n) /\ Req(p))
           \/ Ev.ev = "job.wake" /\ Wake(Ev.n)
           \/ Ev.ev = "leaf.shutdown.begin" /\ SdBegin(Ev.n)
           \/ Ev.ev = "leaf.shutdown.end" /\ SdEnd(Ev.n)
           \/ Ev.ev = "leaf.start.begin" /\ SBegin(Ev.n)
           \/ Ev.ev = "leaf.start.end" /\ SRet(Ev.n)
           \/ Ev.ev = "job.closing" /\ Join(Ev.n)
           \/ Ev.ev = "job.await_return" /\ (ExtAwait(Ev.n) \/ \E p \in Inner : pcW[p] = "await" /\ NextKid(p, Ev.n) /\ Aw(p))
           \/ Ev.ev = "panic.caller" /\ panicked = "caller" /\ UNCHANGED vars       \* the second RequestStop on a job: close of closed channel
           \/ Ev.ev = "run.end" /\ closed[Root] /\ UNCHANGED vars                   \* AwaitStop(root) has returned to the driver
TraceNext == IF ENABLED Silent THEN Silent ELSE Step
TraceSpec == TraceInit /\ [][TraceNext]_tvars
HighWater == TLCSet(1, IF l > TLCGet(1) THEN l ELSE TLCGet(1))
TraceAccepted == PrintT(<<"HWM", TLCGet(1), Len(Trace)>>) /\ TLCGet(1) = Len(Trace) + 1
====
