---- MODULE TraceServer ----
(***************************************************************************)
(* Trace specification binding Server.tla to traces recorded from the real *)
(* server under un-gated concurrent load (harness `srv-load`): verif hooks *)
(* of the prove handler (prove.enter/read/decoded/proved/respond, with the *)
(* request id), the clients' own send/recv events and /metrics scrapes,    *)
(* all sequenced under one recorder mutex.  Each line must be explained by *)
(* an action of Server.tla; the steps no hook sees (wrapper inc/count/dec, *)
(* connection close) are silent steps taken eagerly.  A round starts with  *)
(* a "reset" line naming every client's request kind.                      *)
(*   recv    : the response a client got must be the one the spec derives  *)
(*             from THAT client's request (isolation, C13; status/code,    *)
(*             C09), a 200 must carry a proof valid for its own hash.      *)
(*   scrape  : mid-load scrapes may lag (promhttp counts after the handler *)
(*             returned) but never overshoot or go backwards; the final    *)
(*             scrape of a round must equal the responses sent and show    *)
(*             zero requests in flight (C20).                              *)
(***************************************************************************)
EXTENDS Server, Json, IOUtils
Trace == ndJsonDeserialize(IOEnv.TRACE_FILE)
VARIABLES l, base, lastObs, nsent, sb
tvars == <<vars, l, base, lastObs, nsent, sb>>

DefaultKind == CHOOSE k \in ReqKinds : TRUE
ObsTotal(lst_, lab) == LET m == {i \in 1..Len(lst_) : lst_[i].method = lab[1] /\ lst_[i].code = lab[2]}
                       IN IF m = {} THEN 0 ELSE lst_[CHOOSE i \in m : TRUE].n
KnownLabel(e) == <<e.method, e.code>> \in Labels

TraceInit ==
  /\ pcMain = "running" /\ stopC = FALSE /\ closedC = FALSE /\ pcWC = "wait" /\ rebind = "na"
  /\ stop = [j \in Jobs |-> FALSE] /\ closed = [j \in Jobs |-> FALSE]
  /\ pcW = [j \in Jobs |-> "wait"] /\ pcS = [j \in Jobs |-> "serve"] /\ startDone = [j \in Jobs |-> FALSE]
  /\ inShutdown = [j \in Jobs |-> FALSE] /\ lst = [j \in Jobs |-> "tracked"] /\ active = [j \in Jobs |-> {}]
  /\ req = [c \in Clients |-> DefaultKind]
  /\ pcC = [c \in Clients |-> "idle"] /\ resp = [c \in Clients |-> NoResp] /\ proofOf = [c \in Clients |-> "none"]
  /\ shared = "none" /\ aborted = {}
  /\ inflight = 0 /\ total = ZeroBag /\ sentBag = ZeroBag
  /\ l = 1 /\ base = <<>> /\ lastObs = ZeroBag /\ nsent = 0 /\ sb = {} /\ TLCSet(1, 1)

Ev == Trace[l]
IsEv(name) == l <= Len(Trace) /\ Ev.event = name
Consume == l' = l + 1

Silent == /\ \E c \in Clients : CInc(c) \/ CCount(c) \/ CDec(c) \/ CClose2(c)
          /\ UNCHANGED <<l, base, lastObs, nsent, sb>>

TReset == /\ IsEv("reset") /\ Consume
          /\ \A c \in Clients : pcC[c] \in {"idle", "done", "refused"}           \* the previous round is over
          /\ req' = [c \in Clients |-> IF c \in DOMAIN Ev.reqs THEN Ev.reqs[c] ELSE DefaultKind]
          /\ \A c \in DOMAIN Ev.reqs : Ev.reqs[c] \in ReqKinds
          /\ pcC' = [c \in Clients |-> "idle"] /\ resp' = [c \in Clients |-> NoResp] /\ proofOf' = [c \in Clients |-> "none"]
          /\ inflight' = 0 /\ total' = ZeroBag /\ sentBag' = ZeroBag /\ lastObs' = ZeroBag /\ nsent' = 0 /\ sb' = {}
          /\ base' = Ev.base
          /\ UNCHANGED <<vMain, vJob, vHttp, shared, aborted>>
TSend == /\ IsEv("send") /\ Consume /\ CConnect(Ev.c) /\ nsent' = nsent + 1 /\ UNCHANGED <<base, lastObs, sb>>
HookNames == {"prove.enter", "prove.read", "prove.decoded", "prove.proved", "prove.respond"}
THook == /\ l <= Len(Trace) /\ Ev.event \in HookNames /\ Consume /\ UNCHANGED <<base, lastObs, nsent, sb>>
         /\ Ev.c \in Clients
         /\ \/ Ev.event = "prove.enter" /\ HEnter(Ev.c)
            \/ Ev.event = "prove.read" /\ HRead(Ev.c)
            \/ Ev.event = "prove.decoded" /\ HDecode(Ev.c) /\ pcC'[Ev.c] = "decoded"
            \/ Ev.event = "prove.proved" /\ HProve(Ev.c) /\ (Ev.arg = "err") = (proofOf'[Ev.c] = "error")
            \/ Ev.event = "prove.respond" /\ HRespond(Ev.c) /\ ToString(resp'[Ev.c].status) = Ev.arg
\* a decode failure has no hook of its own: it is taken silently when the next event of that client is its response
TDecodeFail == /\ l <= Len(Trace) /\ Ev.event = "prove.respond" /\ Ev.c \in Clients
               /\ HDecode(Ev.c) /\ pcC'[Ev.c] = "respond" /\ UNCHANGED <<l, base, lastObs, nsent, sb>>
\* warm-up traffic before the first round is not part of any round
TWarmup == /\ l <= Len(Trace) /\ Ev.event \in {"prove.enter", "prove.respond", "prove.read"} /\ Ev.c = "warmup"
           /\ Consume /\ UNCHANGED <<vars, base, lastObs, nsent, sb>>
TRecv == /\ IsEv("recv") /\ Consume /\ UNCHANGED <<vars, base, lastObs, nsent, sb>>
         /\ Ev.err = ""
         /\ resp[Ev.c] # NoResp                                                    \* only after the handler wrote it
         /\ Ev.status = resp[Ev.c].status
         /\ Ev.code = (IF resp[Ev.c].code = "proof" THEN "proof" ELSE resp[Ev.c].code)
         /\ (Ev.status = 200 => Ev.proofok)
         /\ Ev.detail = ""
InHandler(c) == pcC[c] \in {"entered", "readbody", "decoded", "respond"}
\* A scrape is not atomic with the trace: the registry is read at some moment between the "scrape-begin" line and the "scrape" line.
\* Only a request that is inside the handler at BOTH lines was certainly inside when the gauge was read.
TScrapeBegin == /\ IsEv("scrape-begin") /\ Consume /\ sb' = {c \in Clients : InHandler(c)} /\ UNCHANGED <<vars, base, lastObs, nsent>>
TScrape == /\ IsEv("scrape") /\ Consume /\ UNCHANGED <<vars, base, nsent, sb>>
           /\ \A i \in 1..Len(Ev.total) : KnownLabel(Ev.total[i]) \/ Ev.total[i].n = ObsTotal(base, <<Ev.total[i].method, Ev.total[i].code>>)
           /\ LET obs == [lab \in Labels |-> ObsTotal(Ev.total, lab) - ObsTotal(base, lab)] IN
                /\ lastObs' = obs
                /\ IF Ev.final
                     THEN /\ Ev.ok /\ Ev.inflight = 0 /\ obs = sentBag /\ ClientsQuiet
                     ELSE /\ \A lab \in Labels : lastObs[lab] <= obs[lab] /\ obs[lab] <= sentBag[lab]
                          /\ Cardinality({c \in sb : InHandler(c)}) <= Ev.inflight /\ Ev.inflight <= nsent
TScrapeFailed == IsEv("scrape-failed") /\ FALSE      \* the metrics endpoint must stay available

TraceNext == IF ENABLED Silent THEN Silent ELSE (TReset \/ TSend \/ THook \/ TDecodeFail \/ TWarmup \/ TRecv \/ TScrapeBegin \/ TScrape \/ TScrapeFailed)
TraceSpec == TraceInit /\ [][TraceNext]_tvars
HighWater == TLCSet(1, IF l > TLCGet(1) THEN l ELSE TLCGet(1))
TraceAccepted == PrintT(<<"HWM", TLCGet(1), Len(Trace)>>) /\ TLCGet(1) = Len(Trace) + 1
\* the property invariants are evaluated in every state of the validated behaviour
TraceIsolation == Isolation
TraceGauge == GaugeExact /\ Monotone
====
