---- MODULE TraceTree ----
(***************************************************************************)
(* Trace specification for poseidon_tree (code -> spec direction of C18).  *)
(* The harness drives the real tree with seeded random histories and logs, *)
(* per Update, the path, the value, Root() and the returned proof as       *)
(* concrete BN254 elements.  Each line must be a step of PoseidonTree.tla  *)
(* instantiated with the real Poseidon (HashMode = "bn254"), and the       *)
(* property invariants are evaluated after every step.  A "reset" line     *)
(* starts a new tree (many traces are concatenated in one file).           *)
(***************************************************************************)
EXTENDS PoseidonTree, IOUtils
Trace == ndJsonDeserialize(IOEnv.TRACE_FILE)
VARIABLE l
tvars == <<vars, l>>

InitNodes == (<<>> :> [kind |-> "E", val |-> Empty(Depth)])
TraceInit == Init /\ l = 1 /\ TLCSet(1, 1)

TraceStep ==
  /\ l <= Len(Trace)
  /\ LET e   == Trace[l]
         fresh == e.event = "reset"
         ns0 == IF fresh THEN InitNodes ELSE nodes
         lv0 == IF fresh THEN <<>> ELSE leaves
         ib  == e.path
         ns2 == WithValue(ns0, ib, e.value)
         pr  == WriteProof(ns2, ib)
     IN /\ ns2[<<>>].val = e.root            \* logged Root() is the spec's root
        /\ pr = e.proof                      \* logged proof is the spec's proof
        /\ nodes' = ns2
        /\ leaves' = (IF ib \in DOMAIN lv0 THEN [lv0 EXCEPT ![ib] = e.value] ELSE lv0 @@ (ib :> e.value))
        /\ last' = [prevRoot |-> ns0[<<>>].val, prevLeaf |-> LeafAt(lv0, ib), path |-> ib, value |-> e.value, proof |-> pr]
        /\ hist' = <<[path |-> ib]>>
  /\ l' = l + 1
TraceSpec == TraceInit /\ [][TraceStep]_tvars
HighWater == TLCSet(1, IF l > TLCGet(1) THEN l ELSE TLCGet(1))
TraceAccepted == PrintT(<<"HWM", TLCGet(1), Len(Trace)>>) /\ TLCGet(1) = Len(Trace) + 1
====
